// expect: E0502 / E0499 (cannot borrow as mutable because it is also borrowed as immutable)
// a chunk() borrowed from a BytesMut must not survive a mutation of that BytesMut.
use bytes::{Buf, BufMut, BytesMut};
fn main() {
    let mut m = BytesMut::from(&b"hello"[..]);
    let c = m.chunk();
    m.put_slice(b"a lot more data that forces a reallocation of the buffer");
    println!("{:?}", c);
}
