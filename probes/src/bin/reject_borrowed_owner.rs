// expect: E0597 / E0521 / E0716 (borrowed value does not live long enough)
// the owner must be 'static: a Bytes must not be able to outlive borrowed memory.
use bytes::Bytes;
fn make() -> Bytes {
    let v = vec![1u8, 2, 3];
    let b = Bytes::from_owner(&v[..]);
    b
}
fn main() {
    let b = make();
    println!("{:?}", b);
}
