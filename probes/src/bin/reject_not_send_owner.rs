// expect: E0277 (`Rc<..>` cannot be sent between threads safely)
// Bytes is Send + Sync, and the owner's destructor runs on whichever thread drops the last handle:
// an owner that is not Send must be rejected.
use bytes::Bytes;
use std::rc::Rc;
struct Owner(Rc<Vec<u8>>);
impl AsRef<[u8]> for Owner {
    fn as_ref(&self) -> &[u8] {
        &self.0
    }
}
fn main() {
    let rc = Rc::new(vec![1u8, 2, 3]);
    let b = Bytes::from_owner(Owner(rc.clone()));
    std::thread::spawn(move || drop(b)).join().unwrap();
    drop(rc);
}
