// control: a Send + 'static owner is accepted and the handles may travel to other threads
use bytes::{Bytes, BytesMut};
use std::sync::Arc;
struct Owner(Arc<Vec<u8>>);
impl AsRef<[u8]> for Owner {
    fn as_ref(&self) -> &[u8] {
        &self.0
    }
}
fn assert_send_sync<T: Send + Sync>() {}
fn main() {
    assert_send_sync::<Bytes>();
    assert_send_sync::<BytesMut>();
    let b = Bytes::from_owner(Owner(Arc::new(vec![1, 2, 3])));
    let c = b.clone();
    std::thread::spawn(move || drop(c)).join().unwrap();
    drop(b);
}
