// expect: E0277 -- UninitSlice views / raw parts must not make a !Send type Send: Rc inside a Chain
use bytes::Buf;
use std::rc::Rc;
struct RcBuf(Rc<Vec<u8>>, usize);
impl Buf for RcBuf {
    fn remaining(&self) -> usize {
        self.0.len() - self.1
    }
    fn chunk(&self) -> &[u8] {
        &self.0[self.1..]
    }
    fn advance(&mut self, n: usize) {
        self.1 += n;
    }
}
fn main() {
    // adapters must not launder thread-safety: Chain<RcBuf, &[u8]> / Take<RcBuf> are not Send
    let c = RcBuf(Rc::new(vec![1, 2, 3]), 0).chain(&b"xy"[..]).take(3);
    std::thread::spawn(move || drop(c)).join().unwrap();
}
