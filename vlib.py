#!/usr/bin/env python3
"""Orchestrator for the runtime-monitoring checks of tokio-rs/bytes (see DESIGN.md).

  check.py setup                          build every configuration once
  check.py <Cxx> [--tier quick|thorough]  run the check of one property
  check.py <Cxx> --replay PATH            re-execute one recorded case

Environment: VERIF_SEED (default 1), VERIF_TIER (quick|thorough), VERIF_JOBS (default: cores).
Exit status: 0 = held on everything explored (known findings are printed as KNOWN-FINDING),
1 = violation (a line `VIOLATION property=<id> replay=<path>` is printed), 2 = harness error.
"""
import concurrent.futures as cf
import json
import os
import re
import signal
import subprocess
import sys
import time

ROOT = os.path.dirname(os.path.abspath(__file__))
HARNESS = os.path.join(ROOT, "harness")
EVID = os.path.join(ROOT, "evidence")
REPLAYS = os.path.join(ROOT, "replays")
JOBS = int(os.environ.get("VERIF_JOBS", os.cpu_count() or 8))
CFG = "--cfg tokio_rs_bytes_verif"
X86 = "x86_64-unknown-linux-gnu"


# --------------------------------------------------------------------------- builds

BUILDS = {
    # name: (toolchain, release?, rustflags, features, no_default, target, extra cargo args)
    "dbg": ("stable", False, CFG, ["ledger"], False, None, []),
    "rel": ("stable", True, CFG, ["ledger"], False, None, []),
    "relsys": ("stable", True, CFG, [], False, None, []),
    "dbg-nostd": ("stable", False, CFG, ["ledger"], True, None, []),
    "rel-nostd": ("stable", True, CFG, ["ledger"], True, None, []),
    "dbg-xp": ("stable", False, CFG, ["ledger", "extra-platforms"], False, None, []),
    "rel-xp": ("stable", True, CFG, ["ledger", "extra-platforms"], False, None, []),
    "dbg-serde": ("stable", False, CFG, ["ledger", "serde"], False, None, []),
    "asan-rel": ("nightly", True, CFG + " -Zsanitizer=address -Cforce-frame-pointers=yes", [], False, X86, []),
    "asan-dbg": ("nightly", False, CFG + " -Zsanitizer=address -Cforce-frame-pointers=yes", [], False, X86, []),
    "tsan": ("nightly", True, CFG + " -Zsanitizer=thread", [], False, X86, ["-Zbuild-std"]),
    "tsan-nohook": ("nightly", True, "-Zsanitizer=thread", [], False, X86, ["-Zbuild-std"]),
}

_built = set()


def cargo_env(name):
    tc, rel, rf, feats, nodef, target, extra = BUILDS[name]
    env = dict(os.environ)
    env["RUSTFLAGS"] = rf
    env["CARGO_TARGET_DIR"] = os.path.join(ROOT, "target-" + name)
    env["CARGO_NET_OFFLINE"] = "true"
    env.pop("RUSTC_WRAPPER", None)
    return env


def build(name, bins=None):
    """cargo build of one configuration (a no-op when nothing changed; bytes is a path
    dependency on /repo, so an edited working tree is always recompiled)."""
    key = (name, tuple(bins or ()))
    if key in _built:
        return
    tc, rel, rf, feats, nodef, target, extra = BUILDS[name]
    cmd = ["cargo"] + (["+nightly"] if tc == "nightly" else []) + ["build", "--offline"] + extra
    if rel:
        cmd.append("--release")
    if nodef:
        cmd.append("--no-default-features")
    if feats:
        cmd += ["--features", ",".join(feats)]
    if target:
        cmd += ["--target", target]
    for b in bins or []:
        cmd += ["--bin", b]
    t0 = time.time()
    p = subprocess.run(cmd, cwd=HARNESS, env=cargo_env(name), stdout=subprocess.PIPE, stderr=subprocess.STDOUT, text=True)
    if p.returncode != 0:
        sys.stdout.write(p.stdout[-6000:])
        print(f"HARNESS-ERROR build {name} failed")
        sys.exit(2)
    _built.add(key)
    dt = time.time() - t0
    if dt > 5:
        print(f"[build {name} {dt:.0f}s]", flush=True)


def binpath(name, binary):
    tc, rel, rf, feats, nodef, target, extra = BUILDS[name]
    d = os.path.join(ROOT, "target-" + name)
    if target:
        d = os.path.join(d, target)
    return os.path.join(d, "release" if rel else "debug", binary)


# --------------------------------------------------------------------------- jobs


class Job:
    def __init__(self, label, argv, env=None, timeout=900, cwd=None, kind="native", build=None, crash="inconclusive", abort_ok=False):
        self.label = label
        self.argv = argv
        self.env = env or {}
        self.timeout = timeout
        self.cwd = cwd or HARNESS
        self.kind = kind  # native | asan | tsan | miri | valgrind
        self.build = build
        self.crash = crash  # what a dead shard means: "violation" or "inconclusive"
        self.abort_ok = abort_ok  # an allocation-failure abort (SIGABRT from handle_alloc_error) is an accepted outcome
        # results
        self.rc = None
        self.out = ""
        self.err = ""
        self.timed_out = False
        self.wall = 0.0


def run_job(j):
    env = dict(os.environ)
    env.update(j.env)
    t0 = time.time()
    try:
        p = subprocess.Popen(j.argv, cwd=j.cwd, env=env, stdout=subprocess.PIPE, stderr=subprocess.PIPE, start_new_session=True)
        try:
            out, err = p.communicate(timeout=j.timeout)
        except subprocess.TimeoutExpired:
            j.timed_out = True
            try:
                os.killpg(p.pid, signal.SIGKILL)
            except Exception:
                pass
            out, err = p.communicate()
        j.rc = p.returncode
        j.out = out.decode("utf-8", "replace")
        j.err = err.decode("utf-8", "replace")
    except Exception as e:  # harness problem
        j.rc = -999
        j.err = repr(e)
    j.wall = time.time() - t0
    return j


def run_jobs(jobs):
    with cf.ThreadPoolExecutor(max_workers=JOBS) as ex:
        return list(ex.map(run_job, jobs))


# --------------------------------------------------------------------------- result aggregation


class Agg:
    def __init__(self, prop):
        self.prop = prop
        self.counters = {}
        self.cells = set()
        self.samples = []
        self.viols = []  # (prop, sig, case, detail, job)
        self.collateral = []
        self.inconclusive = []
        self.notes = []
        self.jobs = 0
        self.done = 0
        self.by_kind = {}
        self.digests = {}

    def add_counter(self, k, v):
        if k.startswith("exh_depth") or k.startswith("max_"):
            self.counters[k] = max(self.counters.get(k, 0), v)
        elif k == "exh_complete":
            self.counters[k] = min(self.counters.get(k, 1), v)
        else:
            self.counters[k] = self.counters.get(k, 0) + v

    def absorb(self, j):
        self.jobs += 1
        done = False
        last_case = None
        bk = self.by_kind.setdefault(j.label.split(":")[0], {"jobs": 0, "wall_s": 0.0})
        bk["jobs"] += 1
        bk["wall_s"] = round(bk["wall_s"] + j.wall, 1)
        for line in j.out.splitlines():
            if line.startswith("CELL "):
                self.cells.add(line[5:].strip())
            elif line.startswith("OBS "):
                for kv in line[4:].split():
                    if "=" in kv:
                        k, v = kv.split("=", 1)
                        try:
                            self.add_counter(k, int(v))
                        except ValueError:
                            pass
            elif line.startswith("VIOL "):
                m = re.match(r"VIOL prop=(\S+) sig=(\S+) case=(\S+) detail=(.*)", line)
                if m:
                    rec = (m.group(1), m.group(2), m.group(3), m.group(4), j)
                    if m.group(1) == self.prop:
                        self.viols.append(rec)
                    else:
                        self.collateral.append(rec)
            elif line.startswith("SAMPLE "):
                if len(self.samples) < 8:
                    self.samples.append(line[7:])
            elif line.startswith("CASE "):
                last_case = line[5:].strip()
            elif line.startswith("DIGEST "):
                parts = line.split()
                if len(parts) == 4:
                    self.digests.setdefault(j.label, {})[(parts[1], parts[2])] = parts[3]
            elif line.startswith("INCONCLUSIVE"):
                self.inconclusive.append(f"{j.label}: {line}")
            elif line.startswith("NOTE "):
                if len(self.notes) < 20:
                    self.notes.append(line[5:])
            elif line.strip() == "DONE":
                done = True
        if j.abort_ok and j.rc == -6 and "memory allocation of" in j.err:
            # abort-class request: the allocator refused and the process aborted -- an accepted outcome
            self.add_counter("alloc_failure_aborts", 1)
            self.add_counter("histories", 1)
            self.done += 1
            self.cells.add("single|" + j.label.replace(":", "|") + "|abort")
            if len(self.samples) < 8:
                self.samples.append(f"{j.label}: {j.err.strip().splitlines()[0][:120]} -> SIGABRT (accepted)")
            return
        if done:
            self.done += 1
        self.sanitizer_reports(j)
        if j.timed_out:
            self.inconclusive.append(f"{j.label}: watchdog after {j.timeout}s (last case {last_case})")
        elif j.rc == -999:
            self.inconclusive.append(f"{j.label}: harness error {j.err[:200]}")
        elif not done or j.rc != 0:
            sig = f"signal-{-j.rc}" if j.rc is not None and j.rc < 0 else f"exit-{j.rc}"
            if j.kind == "miri":
                return  # handled in sanitizer_reports
            if j.rc == -9:  # SIGKILL: OOM killer or watchdog, never a verdict
                self.inconclusive.append(f"{j.label}: killed (SIGKILL) at case {last_case}")
            elif j.crash == "violation":
                tail = (j.err or "")[-400:].replace("\n", " | ")
                self.viols.append((self.prop, f"crash-{sig}", last_case or "?", f"shard died ({sig}) while running case {last_case}; stderr tail: {tail}", j))
            else:
                self.inconclusive.append(f"{j.label}: shard died ({sig}) at case {last_case}")

    def sanitizer_reports(self, j):
        err = j.err
        if j.kind == "asan":
            for m in re.finditer(r"ERROR: AddressSanitizer: (\S+)", err):
                self._san(j, "C02", "asan-" + m.group(1), err)
            if "ERROR: LeakSanitizer" in err:
                self._san(j, "C03", "lsan-leak", err)
        elif j.kind == "tsan":
            n = err.count("WARNING: ThreadSanitizer: data race")
            if n:
                self._san(j, "C06", "tsan-data-race", err)
            self.add_counter("tsan_reports", n)
        elif j.kind == "miri":
            if j.rc not in (0, None) and not j.timed_out:
                kind = "ub"
                if "Data race detected" in err:
                    kind = "data-race"
                elif "memory leaked" in err or "leaked" in err and "error: memory" in err:
                    kind = "leak"
                elif "Undefined Behavior" in err:
                    kind = "undefined-behavior"
                elif "panicked" in err and "error:" not in err:
                    kind = "panic"
                prop = {"data-race": "C06", "leak": "C03"}.get(kind, "C02")
                self._san(j, prop, "miri-" + kind, err)
        elif j.kind == "valgrind":
            m = re.search(r"ERROR SUMMARY: (\d+) errors", err)
            if m and int(m.group(1)) > 0:
                self._san(j, "C02", "valgrind-memcheck", err)

    def _san(self, j, prop, sig, err):
        # first in-repo frame as part of the signature
        fm = re.search(r"(/repo/src/[\w/]+\.rs:\d+)", err)
        frame = fm.group(1).replace("/repo/", "") if fm else "?"
        mseed = re.search(r"FAILING SEED: (\d+)", err)
        k = err.find("error: Undefined Behavior")
        if k < 0:
            k = max(err.find("error:"), err.find("ERROR:"), err.find("WARNING: ThreadSanitizer"), 0)
        err = err[k:]
        excerpt = err[:3000] if len(err) < 3000 else err[:2000] + " ... " + err[-1000:]
        detail = f"{sig} at {frame}" + (f" (miri seed {mseed.group(1)})" if mseed else "") + " :: " + excerpt.replace("\n", " | ")[:2500]
        owner = self.prop
        # a sanitizer report is attributed to the property whose check is running when that
        # property observes memory / race errors itself; otherwise it is collateral
        claim = {"C02": {"C02", "C13", "C17", "C05"}, "C03": {"C03", "C17", "C05"}, "C06": {"C06"}}.get(prop, {prop})
        rec = (owner if owner in claim else prop, sig + ":" + frame.split(":")[0], j.label, detail, j)
        if owner in claim:
            self.viols.append(rec)
        else:
            self.collateral.append(rec)


# --------------------------------------------------------------------------- known findings, replay, evidence


def load_known():
    p = os.path.join(ROOT, "known_findings.json")
    if not os.path.exists(p):
        return []
    return json.load(open(p))


def write_replay(prop, seed, n, rec):
    os.makedirs(REPLAYS, exist_ok=True)
    p, sig, case, detail, j = rec
    path = os.path.join(REPLAYS, f"{prop}-{seed}-{n}.json")
    only = None
    m = re.match(r"(walk|exh|conc|tbl|pat)[^:]*:.*", case or "")
    body = {
        "property": prop,
        "signature": sig,
        "case": case,
        "job": j.label,
        "build": j.build,
        "kind": j.kind,
        "argv": j.argv,
        "env": j.env,
        "cwd": j.cwd,
        "detail": detail[:6000],
    }
    json.dump(body, open(path, "w"), indent=1)
    return path


def replay(prop, path):
    body = json.load(open(path))
    if str(body.get("job", "")).startswith("probe:"):
        # auxiliary compile probe: the program must be rejected by rustc
        env = dict(os.environ, CARGO_TARGET_DIR=os.path.join(ROOT, "target-probes"), CARGO_NET_OFFLINE="true", RUSTFLAGS="")
        p = subprocess.run(body["argv"], cwd=body.get("cwd"), env=env, stdout=subprocess.PIPE, stderr=subprocess.STDOUT, text=True)
        sys.stdout.write(p.stdout[-2000:] + "\n")
        if p.returncode == 0:
            print(f"VIOL prop={prop} sig={body.get('signature')} case={body.get('case')} detail=the probe program compiles")
            print(f"VIOLATION property={prop} replay={path}")
            return 1
        print("replay: the probe program is rejected (no violation reproduced)")
        return 0
    if body.get("build") and body["build"] in BUILDS:
        build(body["build"])
    argv = list(body["argv"])
    case = body.get("case") or ""
    # narrow the run to the recorded case where the engine supports it
    parts = case.split(":")
    if "--only" not in argv:
        if parts and parts[0] == "walk" and len(parts) >= 3:
            argv += ["--only", parts[2]]
        elif parts and parts[0] == "exh" and len(parts) >= 4 and parts[3].isdigit():
            argv += ["--only", parts[3]]  # enumerate up to and including that history
        elif parts and parts[0] in ("conc", "rd", "wr") and len(parts) >= 3 and parts[2].isdigit():
            argv += ["--only", parts[2]]
        elif parts and parts[0] == "flt" and len(parts) >= 3 and parts[2].isdigit():
            argv += ["--only", parts[2]]
        elif parts and parts[0] == "pat" and len(parts) >= 2 and parts[1].isdigit():
            argv += ["--only", parts[1]]
    j = Job("replay", argv, env=body.get("env"), timeout=1800, cwd=body.get("cwd"), kind=body.get("kind", "native"), build=body.get("build"), crash="violation")
    run_job(j)
    a = Agg(prop)
    a.absorb(j)
    for v in a.viols + a.collateral:
        print(f"VIOL prop={v[0]} sig={v[1]} case={v[2]} detail={v[3][:3000]}")
    if j.err.strip():
        sys.stdout.write(j.err[-3000:] + "\n")
    if any(v[0] == prop for v in a.viols):
        print(f"VIOLATION property={prop} replay={path}")
        return 1
    print("replay: no violation reproduced")
    return 0


def finish(prop, tier, seed, agg, t0, level, rule, nontrivial_filter=None, extra=None, assumptions=None, exhaustive=None, min_eval_key="histories"):
    known = [k for k in load_known() if k.get("property") == prop and k.get("status") == "open"]
    real = []
    known_hit = {}
    for v in agg.viols:
        hit = None
        for k in known:
            if v[1] == k.get("signature") or (k.get("signature_regex") and re.fullmatch(k["signature_regex"], v[1])):
                hit = k
                break
        if hit:
            known_hit.setdefault(hit["signature"], (hit, v))
        else:
            real.append(v)
    cells = agg.cells
    if nontrivial_filter:
        cells = {c for c in cells if nontrivial_filter(c)}
    evaluations = agg.counters.get(min_eval_key, 0)
    cov = {
        "evaluations": evaluations,
        "distinct_nontrivial": len(cells),
        "rule": rule,
        "samples": agg.samples[:6] if agg.samples else [],
        "counters": agg.counters,
        "shards": {"run": agg.jobs, "completed": agg.done},
        "by_instrument": agg.by_kind,
        "inconclusive": agg.inconclusive[:20],
        "collateral_observations": [f"{v[0]}:{v[1]} case={v[2]}" for v in agg.collateral[:20]],
        "cells_sample": sorted(cells)[:40],
    }
    if exhaustive is not None:
        cov["exhaustive"] = exhaustive
    if extra:
        cov.update(extra)
    # a run that observed nothing is a harness failure, never a pass
    harness_fail = None
    if evaluations <= 0 or len(cells) < 2 or not cov["samples"]:
        harness_fail = f"monitors observed nothing (evaluations={evaluations}, cells={len(cells)}, samples={len(cov['samples'])})"
    ev = {
        "property_id": prop,
        "tier": tier,
        "seed": seed,
        "level": level,
        "coverage": cov,
        "assumptions": assumptions or [],
        "wall_s": round(time.time() - t0, 1),
        "violations": len(real),
        "known_findings_hit": sorted(known_hit.keys()),
    }
    os.makedirs(EVID, exist_ok=True)
    if not harness_fail or real:
        # keep schema-valid even on odd runs
        cov["evaluations"] = max(1, cov["evaluations"])
        if not cov["samples"]:
            cov["samples"] = ["(none)"]
        json.dump(ev, open(os.path.join(EVID, prop + ".json"), "w"), indent=1)
    for k, (hit, v) in known_hit.items():
        print(f"KNOWN-FINDING: property={prop} {hit.get('description', k)}")
    for s in agg.inconclusive[:10]:
        print(f"INCONCLUSIVE: {s}")
    for v in agg.collateral[:5]:
        print(f"NOTE: collateral observation {v[0]}:{v[1]} (case {v[2]}) - not owned by this check")
    print(f"[{prop} {tier} seed={seed}] evaluations={evaluations} distinct_cells={len(cells)} shards={agg.done}/{agg.jobs} wall={ev['wall_s']}s violations={len(real)}")
    if real:
        seen = set()
        n = 0
        for v in real:
            if v[1] in seen:
                continue
            seen.add(v[1])
            path = write_replay(prop, seed, n, v)
            n += 1
            print(f"VIOL-DETAIL sig={v[1]} case={v[2]} :: {v[3][:1500]}")
            print(f"VIOLATION property={prop} replay={path}")
            if n >= 5:
                break
        return 1
    if harness_fail:
        print(f"HARNESS-ERROR {harness_fail}")
        return 2
    return 0


# --------------------------------------------------------------------------- helpers for engine jobs


def seq_jobs(buildname, mode, seed, nshards, extra, label, kind="native", crash="inconclusive", timeout=900, env=None, wrapper=None):
    build(buildname, ["seqdrive"])
    exe = binpath(buildname, "seqdrive")
    jobs = []
    for s in range(nshards):
        argv = (wrapper or []) + [exe, mode, "--seed", str(seed), "--shard", str(s), "--nshards", str(nshards)] + extra
        jobs.append(Job(f"{label}:{s}", argv, env=env, kind=kind, build=buildname, crash=crash, timeout=timeout))
    return jobs


ASAN_ENV = {"ASAN_OPTIONS": "detect_leaks=1:halt_on_error=1:abort_on_error=0:allocator_may_return_null=1:detect_stack_use_after_return=0", "LSAN_OPTIONS": "exitcode=23"}


def miri_jobs(binary, args_list, label, seeds="0..4", target=None, timeout=1500, cfg=True, extra_flags=""):
    """`cargo miri run` jobs; each job interprets `binary` with -Zmiri-many-seeds."""
    jobs = []
    tdir = os.path.join(ROOT, "target-miri" + ("" if cfg else "-nohook") + ("-" + target.split("-")[0] if target else ""))
    for i, args in enumerate(args_list):
        env = {
            "MIRIFLAGS": ((f"-Zmiri-many-seeds={seeds} " if seeds else "") + extra_flags).strip(),
            "RUSTFLAGS": CFG if cfg else "",
            "CARGO_TARGET_DIR": tdir,
            "CARGO_NET_OFFLINE": "true",
        }
        argv = ["cargo", "+nightly", "miri", "run", "--offline", "--quiet", "--bin", binary]
        if target:
            argv += ["--target", target]
        argv += ["--"] + args
        jobs.append(Job(f"{label}:{i}", argv, env=env, kind="miri", build=None, timeout=timeout, crash="inconclusive"))
    return jobs


def tier_seed(argv):
    tier = os.environ.get("VERIF_TIER", "quick")
    replay_path = None
    i = 0
    while i < len(argv):
        if argv[i] == "--tier":
            tier = argv[i + 1]
            i += 2
        elif argv[i] == "--replay":
            replay_path = argv[i + 1]
            i += 2
        else:
            i += 1
    seed = int(os.environ.get("VERIF_SEED", "1"))
    return tier, seed, replay_path


