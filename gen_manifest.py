#!/usr/bin/env python3
"""Writes MANIFEST.json from the table below (kept as a script so the file stays consistent)."""
import json, os, subprocess
ROOT = os.path.dirname(os.path.abspath(__file__))
import plans

HOOK_COMMITS = subprocess.run(["git", "-C", "/repo", "log", "--format=%H %s"], capture_output=True, text=True).stdout.splitlines()
hooks = [l.split()[0] for l in HOOK_COMMITS if " verif hook " in l]

LEVEL = {
 "C01": ("exploration", "Value-model monitor over bounded-exhaustive short histories and seeded random walks on the real crate, on the ledger allocator (debug+release) and under Miri: every handle is compared with an independent Vec<u8> after every op. Held on the executions reported in the evidence file, nothing more.", "§4 C01"),
 "C02": ("exploration", "Allocator ledger (layout-exact free, red zones, poison+quarantine, per-op address-range check of every handle), ASan, Miri and valgrind observe the same generated histories incl. out-of-contract arguments, in debug and release, with even/odd buffer addresses. The unsafe code behind Buf/BufMut (raw copies, UninitSlice, chunk_mut, Take::chunks_vectored, io::Cursor arithmetic) is driven by the reader/writer/cursor conformance engines under ASan, ledger guard bytes and valgrind. A dead shard (SIGSEGV etc.) counts as a violation. Sanitizers only see what the workload reaches. (One auxiliary static guard outside the technique family: a program keeping chunk() across a mutation must be rejected by rustc.)", "§4 C02, §11.6"),
 "C03": ("exploration", "Ledger balance at the end of every history after dropping survivors in enumerated/random orders, refcount conservation at every quiescent point (H2), instrumented owners (as_ref/drop counters, drop timing), LSan and Miri leak checks. (Auxiliary static guard outside the family: from_owner must reject a non-'static owner.)", "§4 C03, §11.6"),
 "C04": ("exploration", "Region monitor: after every op of BytesMut-centred histories all [ptr,ptr+cap) regions are checked against each other, against live Bytes and against the ledger's blocks; reserve/try_reclaim postconditions with boundary arguments in debug and release; write probes into spare capacity.", "§4 C04"),
 "C05": ("exploration", "Small multi-threaded programs on real threads (ledger allocator, seeded delays injected through the H1 hook between the crate's atomic steps; the same programs under ASan+LSan) and under Miri's randomised scheduler (many seeds): per-thread value/address assertions plus a post-join trace check (at most one zero-copy exclusive owner, disjoint exclusive regions, storage freed exactly once). After the randomly delayed repetitions every program is run once per (thread, hook event) with that thread held there until the others finish (all single-preemption schedules at the hooked atomic steps). Otherwise sampled schedules only; the evidence reports distinct interleaving signatures and how often the lost-promotion-race path was seen. (Auxiliary static guard outside the family: programs sending a !Send owner / adapter across threads must be rejected by rustc; the Send bound of from_owner cannot be observed at run time because the violating program does not compile on a correct tree.)", "§4 C05, §11.6"),
 "C06": ("exploration", "Happens-before race detection by Miri (weak-memory emulation, vector clocks incl. deallocation, many seeds, with the hook and with the hook compiled out) and by ThreadSanitizer (-Zbuild-std) on the same programs; both follow the orderings written in the source, so a missing Release/Acquire edge is reported on any racy-shaped execution even on x86. Sampled schedules only.", "§4 C06"),
 "C07": ("exploration", "Pointer-arithmetic oracle per zero-copy op plus per-call allocation events from the ledger (no align-1 allocation allowed) over the generated histories.", "§4 C07"),
 "C08": ("exploration", "Three-valued uniqueness oracle (pool + ledger) evaluated on every live Bytes after every op; try_into_mut vs is_unique vs address; reclaim clause probed whenever an empty sole BytesMut exists.", "§4 C08"),
 "C13": ("fault_enumeration", "34 out-of-contract call variants injected at every point of generated histories (exhaustively as first step from 16 start states with every 1-op continuation; randomly in walks), each under catch_unwind with a before/after snapshot of every handle, in debug and release, on the ledger and under ASan; a crash inside such a call is a violation.", "§4 C13"),
 "C09": ("exploration", "Lock-step law monitor: reader trees made of the crate's real adapters are compared with a flat Vec<u8> model after every cursor op; every fragmentation of sequences of length<=6 x 7 wrappers x every op pair, plus random trees to depth 4; an io::Cursor position/count sweep; a 128 MiB BytesMut advanced across the 32-bit front-offset limit; Miri (host and i686) on slices of it.", "§4 C09"),
 "C10": ("exploration", "Exhaustive getter table (method x value pattern x implementor x chunk-boundary position x call path x shortfall) against a reference decoder, debug+release natively, and slices of it under Miri for host, big-endian s390x and 32-bit i686.", "§4 C10"),
 "C11": ("exploration", "Writer-tree monitor: model of appended bytes, guard bytes around fixed targets, remaining_mut/chunk_mut laws after every step, dismantling at the end, read-back with the matching getter; a putter table (every put_X x nbytes x value x leaf-boundary position, complete natively, slices under Miri host / s390x / i686, native-endian rows complete on s390x); puts from a source that panics part-way (accounting must match what the target really holds); ledger (red zones), ASan, Miri and valgrind memcheck runs.", "§4 C11"),
 "C12": ("exploration", "Dismantling oracle: after each generated use the adapter tree is taken apart with into_inner/get_ref/limit and every inner cursor compared with model[transferred..]; Reader/Writer io results; per-leaf distribution for Chain/Limit writers.", "§4 C12"),
 "C16": ("exploration", "Differential monitor: identical seeded histories and the getter table are executed in 12 build/parity configurations (plus Miri 32-bit and big-endian for table slices) and per-case digests of all observable results are compared.", "§4 C16"),
 "C17": ("fault_enumeration", "Lying/panicking safe trait implementations (exhaustive single-lie placements per entry point, then random multi-lie schedules) are driven into 36 consumers (plus serde visit_seq) under the ledger (violations + leak balance after unwinding), ASan/LSan, Miri and valgrind memcheck (results are read, so uninitialised bytes handed out are reported); only memory errors, crashes and leaks count.", "§4 C17"),
 "C18": ("exploration", "Allocation-trend monitor over the ledger's counters for 13380 (quick) / 15610 (thorough) recycling patterns of 10^4..10^6 rounds each (consumption by split, split_to, split_off+swap, copy_to_bytes, advance, truncate, or on the Bytes side).", "§4 C18"),
 "C14": ("exploration", "Table monitor: every comparison/hash impl instantiation in both operand orders against slice semantics on an exhaustive small universe plus random pairs.", "§4 C14"),
 "C15": ("exploration", "Parse-back monitor for Debug/hex on all 1- and 2-byte strings plus random ones; serde_test token streams for all entry points.", "§4 C15"),
}
NOTE = {
 "C01": "trusted: the harness's Vec<u8> model of each op; the ledger's fresh-fill/poison making stale reads deterministic",
 "C02": "trusted: ledger allocator implementation, ASan/Miri/valgrind; not covered: code the generators do not reach (32-bit-only promote path, refcount overflow abort)",
 "C03": "trusted: ledger scope tagging (only allocations made during a history are balanced), H2 introspection for stored counts",
 "C04": "trusted: ledger block table; capacity() as reported by the crate is what is checked against it",
 "C05": "only schedules actually produced are judged; harness adds only spawn/barrier/join synchronisation; hook and log use Relaxed atomics only",
 "C06": "Miri/TSan happens-before models; interleavings never produced are never judged",
 "C07": "trusted: ledger event window around each call; empty results other than split parts are not constrained",
 "C08": "trusted: pool bookkeeping of which handles are alive; H2 only classifies empty handles that hold no storage",
 "C13": "abort-class requests (allocation failure) are not issued in-process; panic messages are not compared",
 "C09": "laws are asserted for trees whose leaves obey them; the harness Seg leaf is itself checked as a bare leaf",
 "C10": "reference decoder in the harness; big-endian and 32-bit only under Miri (sampled rows)",
 "C11": "lying BufMut implementations are out of scope (unsafe trait); bytes written before an expected panic are not constrained",
 "C12": "expected inner states computed from the adapter tree by the harness",
 "C16": "digest covers contents, lengths, capacities, return values and panic/no-panic; generator choices are assumed configuration-independent (a dependence shows up as a difference)",
 "C17": "allocation-failure aborts are not provoked; size_hint lies limited to values that panic in Vec or are small",
 "C18": "finite histories; trend judged over 9 post-warm-up windows; tolerance of 2 requests + slack as stated in DESIGN §4 C18",
 "C14": "the impl list is written out by hand in harness/src/bin/cmpfmt.rs; an impl added later is not covered until listed",
 "C15": "grammar of byte-string literals as implemented by the harness parser; serde_test as data-model reference",
}
TECH = {
 "C01": "runtime value-model monitor over generated op histories (ledger allocator, Miri)",
 "C02": "allocator-ledger monitor + ASan + Miri + valgrind over generated op histories and over the Buf/BufMut conformance workloads",
 "C03": "ledger leak balance, refcount-conservation invariant hook, owner drop monitors, LSan/Miri leak check",
 "C04": "region-disjointness/containment monitor against the allocator ledger; reserve postcondition monitor",
 "C05": "multi-threaded stress with hook-injected delays + post-join trace checker (ledger, ASan+LSan); Miri many-seeds",
 "C06": "happens-before data-race detection: Miri many-seeds (weak memory) + ThreadSanitizer",
 "C07": "pointer-offset oracle + allocation-event monitor",
 "C08": "three-valued uniqueness oracle monitor",
 "C13": "fault injection of out-of-contract calls with snapshot-after-panic monitor (ledger, ASan)",
 "C09": "lock-step reference-model monitor over adapter trees (native + Miri)",
 "C10": "exhaustive table-driven differential monitor vs reference decoder (native, Miri host/s390x/i686)",
 "C11": "reference-model + guard-byte monitor over writer trees (ledger, ASan, Miri, valgrind)",
 "C12": "dismantling oracle over adapter trees; io::Read/Write result monitor",
 "C16": "cross-configuration differential digest monitor (12 native configs + Miri i686/s390x)",
 "C17": "fault injection of lying trait impls under allocator ledger, ASan/LSan, Miri, valgrind memcheck",
 "C18": "allocation-trend monitor over allocator counters",
 "C14": "exhaustive table-driven differential monitor vs slice semantics",
 "C15": "parse-back / token-stream round-trip monitor",
}
ENGINE = {"C16": "seqdrive+bufconf", "C05": "conc", "C06": "conc", "C14": "cmpfmt", "C15": "cmpfmt", "C09": "bufconf", "C10": "bufconf", "C11": "bufconf", "C12": "bufconf", "C17": "bufconf", "C18": "recycle"}

checks = []
for pid in sorted(plans.PLANS):
    if pid not in LEVEL:
        continue
    cat, text, ref = LEVEL[pid]
    checks.append({
        "property_id": pid,
        "quick_cmd": f"python3 check.py {pid} --tier quick",
        "thorough_cmd": f"python3 check.py {pid} --tier thorough",
        "evidence_file": f"/verif/evidence/{pid}.json",
        "replay_cmd_template": f"python3 check.py {pid} --replay {{path}}",
        "engine": ENGINE.get(pid, "seqdrive"),
        "level_claimed": {"category": cat, "text": text, "design_ref": ref},
        "level_note": NOTE[pid],
        "technique": TECH[pid],
    })
claimed = {c["property_id"] for c in checks}
allp = [json.loads(l)["id"] for l in open(os.path.join(ROOT, "properties.jsonl"))]
na = [{"property_id": p, "reason": "not claimed"} for p in allp if p not in claimed]
m = {
 "version": 1,
 "setup_cmd": "python3 check.py setup",
 "hooks": {
   "guard": "tokio_rs_bytes_verif",
   "enable": "RUSTFLAGS=\"--cfg tokio_rs_bytes_verif\" (set by vlib.py for every build of harness/, which depends on /repo by path)",
   "baseline_off_cmd": "cd /repo && cargo test --workspace --no-fail-fast --offline",
   "source_commits": hooks,
   "add_only": True,
 },
 "engines": [
   {"name": "seqdrive", "path": "harness/src/bin/seqdrive.rs", "serves_properties": ["C01","C02","C03","C04","C07","C08","C13","C16"], "kind_free_text": "op-sequence driver with value model, allocator ledger and per-step monitors"},
   {"name": "conc", "path": "harness/src/bin/conc.rs", "serves_properties": ["C05","C06"], "kind_free_text": "small multi-threaded programs over shared storage; native stress, TSan, Miri"},
   {"name": "bufconf", "path": "harness/src/bin/bufconf.rs", "serves_properties": ["C09","C10","C11","C12","C17"], "kind_free_text": "Buf/BufMut conformance engine over adapter trees, getter table, fault injection"},
   {"name": "recycle", "path": "harness/src/bin/recycle.rs", "serves_properties": ["C18"], "kind_free_text": "allocation-trend monitor over recycling patterns"},
   {"name": "cmpfmt", "path": "harness/src/bin/cmpfmt.rs", "serves_properties": ["C14","C15"], "kind_free_text": "comparison/hash tables, Debug/hex parse-back, serde token streams"},
 ],
 "checks": checks,
 "not_applicable": na,
 "notes": "All checks: python3 check.py <id> [--tier quick|thorough], env VERIF_SEED / VERIF_TIER honoured. Known findings: known_findings.json. See DESIGN.md.",
}
json.dump(m, open(os.path.join(ROOT, "MANIFEST.json"), "w"), indent=1)
print("wrote MANIFEST.json with", len(checks), "checks;", len(na), "not claimed")
