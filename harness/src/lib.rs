//! Shared machinery of the verification harness (see /verif/DESIGN.md).
#[cfg(feature = "ledger")]
pub mod ledger;
#[cfg(feature = "std")]
pub mod bufx;
pub mod out;
pub mod rng;
pub mod seq;
pub mod util;

#[cfg(feature = "ledger")]
#[global_allocator]
static GLOBAL: ledger::Ledger = ledger::Ledger;
