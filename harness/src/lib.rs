//! Shared machinery of the verification harness (see /verif/DESIGN.md).
#[cfg(feature = "ledger")]
pub mod ledger;
#[cfg(feature = "std")]
pub mod bufx;
pub mod out;
pub mod rng;
pub mod seq;
pub mod util;

#[cfg(all(not(feature = "ledger"), not(miri)))]
pub mod oddalloc;

#[cfg(feature = "ledger")]
#[global_allocator]
static GLOBAL: ledger::Ledger = ledger::Ledger;

#[cfg(all(not(feature = "ledger"), not(miri)))]
#[global_allocator]
static GLOBAL: oddalloc::OddAlloc = oddalloc::OddAlloc;
