//! Parity-shifting global allocator for the builds that run WITHOUT the ledger (ASan, TSan, valgrind).
//!
//! glibc only returns even addresses, so natively the `PROMOTABLE_ODD` representation of `Bytes` is reachable
//! only through the ledger -- which is off under the sanitizers. This wrapper places byte buffers (align 1) at
//! `base + 1` of a 2-aligned system block when asked to. It is stateless per block (the parity of the user
//! pointer says whether it was shifted), takes no lock and touches only `Relaxed` atomics, so it adds no
//! happens-before edge a race detector could mistake for synchronisation. `realloc` is the default
//! alloc + copy + free, i.e. always moving.
use std::alloc::{GlobalAlloc, Layout, System};
use std::sync::atomic::{AtomicU32, AtomicU8, Ordering::Relaxed};

static MODE: AtomicU8 = AtomicU8::new(0); // 0 = even (pass-through placement), 1 = odd, 2 = alternating
static CTR: AtomicU32 = AtomicU32::new(0);
pub static ODD_BLOCKS: AtomicU32 = AtomicU32::new(0);

pub fn set_mode(m: u8) {
    MODE.store(m, Relaxed);
}

pub struct OddAlloc;

unsafe impl GlobalAlloc for OddAlloc {
    unsafe fn alloc(&self, l: Layout) -> *mut u8 {
        if l.align() == 1 && l.size() > 0 {
            let m = MODE.load(Relaxed);
            let shift = m == 1 || (m == 2 && CTR.fetch_add(1, Relaxed) & 1 == 1);
            if shift {
                if l.size() == usize::MAX {
                    return std::ptr::null_mut();
                }
                let base = System.alloc(Layout::from_size_align_unchecked(l.size() + 1, 2));
                if base.is_null() {
                    return base;
                }
                ODD_BLOCKS.fetch_add(1, Relaxed);
                return base.add(1);
            }
            // unshifted byte buffers are 2-aligned, so the parity of a pointer identifies how it was placed
            return System.alloc(Layout::from_size_align_unchecked(l.size(), 2));
        }
        System.alloc(l)
    }
    unsafe fn dealloc(&self, p: *mut u8, l: Layout) {
        if l.align() == 1 && l.size() > 0 {
            if (p as usize) & 1 == 1 {
                System.dealloc(p.sub(1), Layout::from_size_align_unchecked(l.size() + 1, 2));
            } else {
                System.dealloc(p, Layout::from_size_align_unchecked(l.size(), 2));
            }
            return;
        }
        System.dealloc(p, l)
    }
}
