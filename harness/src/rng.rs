//! Small deterministic PRNG (splitmix64 seeding + xoshiro256**).
#[derive(Clone, Debug)]
pub struct Rng {
    s: [u64; 4],
}

pub fn splitmix(x: &mut u64) -> u64 {
    *x = x.wrapping_add(0x9E3779B97F4A7C15);
    let mut z = *x;
    z = (z ^ (z >> 30)).wrapping_mul(0xBF58476D1CE4E5B9);
    z = (z ^ (z >> 27)).wrapping_mul(0x94D049BB133111EB);
    z ^ (z >> 31)
}

pub fn mix2(a: u64, b: u64) -> u64 {
    let mut x = a ^ b.wrapping_mul(0x9E3779B97F4A7C15).rotate_left(29);
    splitmix(&mut x)
}

impl Rng {
    pub fn new(seed: u64) -> Rng {
        let mut x = seed ^ 0x5DEECE66D;
        let s = [splitmix(&mut x), splitmix(&mut x), splitmix(&mut x), splitmix(&mut x)];
        Rng { s }
    }
    pub fn next(&mut self) -> u64 {
        let r = self.s[1].wrapping_mul(5).rotate_left(7).wrapping_mul(9);
        let t = self.s[1] << 17;
        self.s[2] ^= self.s[0];
        self.s[3] ^= self.s[1];
        self.s[1] ^= self.s[2];
        self.s[0] ^= self.s[3];
        self.s[2] ^= t;
        self.s[3] = self.s[3].rotate_left(45);
        r
    }
    /// uniform in 0..n (n > 0)
    pub fn below(&mut self, n: usize) -> usize {
        if n == 0 {
            return 0;
        }
        (self.next() % n as u64) as usize
    }
    pub fn range(&mut self, lo: usize, hi_incl: usize) -> usize {
        lo + self.below(hi_incl - lo + 1)
    }
    pub fn chance(&mut self, num: u32, den: u32) -> bool {
        (self.next() % den as u64) < num as u64
    }
    pub fn pick<'a, T>(&mut self, xs: &'a [T]) -> &'a T {
        &xs[self.below(xs.len())]
    }
    pub fn byte(&mut self) -> u8 {
        self.next() as u8
    }
}

/// FNV-1a style 64-bit hash used for digests / signatures.
pub fn fnv(mut h: u64, bytes: &[u8]) -> u64 {
    if h == 0 {
        h = 0xcbf29ce484222325;
    }
    for &b in bytes {
        h ^= b as u64;
        h = h.wrapping_mul(0x100000001b3);
    }
    h
}
pub fn fnv_u64(h: u64, v: u64) -> u64 {
    fnv(h, &v.to_le_bytes())
}
