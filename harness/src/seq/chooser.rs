//! Source of choices: a PRNG for random walks, an odometer for bounded-exhaustive enumeration.
use crate::rng::Rng;

pub trait Chooser {
    /// a value in 0..n (n >= 1)
    fn choose(&mut self, n: usize) -> usize;
    /// true when enumerating (generators then restrict themselves to boundary classes)
    fn exhaustive(&self) -> bool;
    /// the current history is outside this shard and must be abandoned
    fn skip(&self) -> bool {
        false
    }
    fn chance(&mut self, num: usize, den: usize) -> bool {
        self.choose(den) < num
    }
}

pub struct RandCh(pub Rng);
impl Chooser for RandCh {
    fn choose(&mut self, n: usize) -> usize {
        if n <= 1 {
            0
        } else {
            self.0.below(n)
        }
    }
    fn exhaustive(&self) -> bool {
        false
    }
}

/// Depth-first odometer over choice sequences.
pub struct Odo {
    pub prefix: Vec<(usize, usize)>,
    pub pos: usize,
    pub shard: usize,
    pub nshards: usize,
    pub skipping: bool,
    pub nondet: bool,
}

impl Odo {
    pub fn new(shard: usize, nshards: usize) -> Odo {
        Odo { prefix: Vec::with_capacity(256), pos: 0, shard, nshards: nshards.max(1), skipping: false, nondet: false }
    }
    /// Advance to the next sequence; false when the space is exhausted.
    pub fn next(&mut self) -> bool {
        if self.skipping {
            self.prefix.truncate(3);
        } else {
            self.prefix.truncate(self.pos);
        }
        self.skipping = false;
        self.pos = 0;
        while let Some(&(v, n)) = self.prefix.last() {
            if v + 1 < n {
                let l = self.prefix.len();
                self.prefix[l - 1].0 = v + 1;
                return true;
            }
            self.prefix.pop();
        }
        false
    }
}

impl Chooser for Odo {
    fn choose(&mut self, n: usize) -> usize {
        let n = n.max(1);
        let v = if self.pos < self.prefix.len() {
            if self.prefix[self.pos].1 != n {
                self.nondet = true;
                self.prefix[self.pos].1 = n;
                self.prefix[self.pos].0 = self.prefix[self.pos].0.min(n - 1);
            }
            self.prefix[self.pos].0
        } else {
            self.prefix.push((0, n));
            0
        };
        self.pos += 1;
        if self.pos == 3 && self.nshards > 1 {
            let idx = (self.prefix[0].0 * self.prefix[1].1 + self.prefix[1].0) * self.prefix[2].1 + self.prefix[2].0;
            if idx % self.nshards != self.shard {
                self.skipping = true;
            }
        }
        v
    }
    fn exhaustive(&self) -> bool {
        true
    }
    fn skip(&self) -> bool {
        self.skipping
    }
}
