//! Op alphabet of E1: dispatcher, helpers, constructors and start states.
use super::chooser::Chooser;
use super::mem::{self, Events};
use super::pool::*;
use bytes::{Bytes, BytesMut};
use std::sync::Arc;

/// Run `f` (a call into the crate) inside an event window; a panic in an in-contract call is
/// a C01 violation ("an in-contract call panics").
pub fn run<R>(d: &mut Driver, name: &str, f: impl FnOnce() -> R) -> Option<(R, Events)> {
    mem::reset_events();
    let r = crate::util::catch(f);
    let ev = mem::events();
    match r {
        Ok(v) => Some((v, ev)),
        Err(msg) => {
            d.viol("C01", &format!("unexpected-panic-{name}"), &format!("in-contract call {name} panicked: {msg}"));
            None
        }
    }
}

/// index argument: boundary classes 0, 1, n-1, n, n/2, random
pub fn pick_idx(ch: &mut dyn Chooser, n: usize) -> (usize, &'static str) {
    let ncls = if ch.exhaustive() { 4 } else { 6 };
    match ch.choose(ncls) {
        0 => (0, "0"),
        1 => (1.min(n), if n >= 1 { "1" } else { "n" }),
        2 => (n.saturating_sub(1), if n >= 1 { "n-1" } else { "0" }),
        3 => (n, "n"),
        4 => (n / 2, "n/2"),
        _ => (ch.choose(n + 1), "rnd"),
    }
}

pub fn pick_size(ch: &mut dyn Chooser) -> usize {
    if ch.exhaustive() {
        [0usize, 1, 5, 33][ch.choose(4)]
    } else {
        match ch.choose(16) {
            0 => 0,
            1 => 1,
            2 => 2,
            3 => 7,
            4 => 17,
            5 => 33,
            6 => 64,
            7 => 100,
            8 => 1024 + ch.choose(64),
            9 => 4096 + ch.choose(1000),
            10 => 2048,
            // beyond the 64 KiB cap of original_capacity_repr (rare: these buffers are compared after every op;
            // not under Miri, where one such history costs many minutes)
            11 if !cfg!(miri) && ch.choose(8) == 0 => 66_000 + ch.choose(70_000),
            _ => ch.choose(41),
        }
    }
}

/// zero-copy assertion helper (C07)
pub fn expect_ptr(d: &mut Driver, op: &str, what: &str, got: usize, want: usize, rname: &str) {
    d.count("zc_ptr_checks");
    if got != want {
        d.viol("C07", &format!("ptr-{op}-{what}"), &format!("{op}: {what} starts at {got:#x}, expected {want:#x} (source repr {rname})"));
    }
}
pub fn expect_no_byte_alloc(d: &mut Driver, op: &str, ev: &Events, rname: &str) {
    if mem::ENABLED {
        d.count("zc_alloc_windows");
        if ev.byte_allocs != 0 {
            d.viol("C07", &format!("alloc-{op}"), &format!("{op} allocated {} byte buffer(s) ({} bytes) (source repr {rname})", ev.byte_allocs, ev.byte_alloc_bytes));
        }
    }
}

// ------------------------------------------------------------------ constructors

pub const N_CTORS: usize = 18;

pub fn construct(d: &mut Driver, ch: &mut dyn Chooser, which: usize) {
    let id = d.fresh_id();
    match which {
        0 => {
            if let Some((b, _)) = run(d, "Bytes::new", Bytes::new) {
                d.log("Bytes::new".into());
                d.add(Val::B(b), Vec::new(), Origin::Static);
            }
        }
        1 => {
            let len = pick_size(ch).min(4000);
            let off = ch.choose(64);
            let sl: &'static [u8] = &STATIC_DATA[off..off + len];
            if let Some((b, ev)) = run(d, "from_static", || Bytes::from_static(sl)) {
                d.log(format!("from_static off={off} len={len}"));
                expect_no_byte_alloc(d, "from_static", &ev, "-");
                if len > 0 {
                    expect_ptr(d, "from_static", "result", b.as_ptr() as usize, sl.as_ptr() as usize, "-");
                }
                d.add(Val::B(b), sl.to_vec(), Origin::Static);
            }
        }
        2 | 3 => {
            // From<Vec> with len == cap -> promotable (parity from the allocator)
            let len = pick_size(ch);
            let m = gen_bytes(id, len);
            let mut v = Vec::with_capacity(len);
            v.extend_from_slice(&m);
            let p = v.as_ptr() as usize;
            if let Some((b, ev)) = run(d, "From<Vec>exact", move || Bytes::from(v)) {
                d.log(format!("Bytes::from(vec exact len={len})"));
                if len > 0 {
                    expect_ptr(d, "from_vec_exact", "result", b.as_ptr() as usize, p, "-");
                    expect_no_byte_alloc(d, "from_vec_exact", &ev, "-");
                }
                d.add(Val::B(b), m, Origin::Heap);
            }
        }
        4 => {
            // From<Vec> with spare capacity -> shared
            let len = pick_size(ch);
            let spare = 1 + ch.choose(if ch.exhaustive() { 2 } else { 40 });
            let m = gen_bytes(id, len);
            let mut v = Vec::with_capacity(len + spare);
            v.extend_from_slice(&m);
            let p = v.as_ptr() as usize;
            if let Some((b, ev)) = run(d, "From<Vec>spare", move || Bytes::from(v)) {
                d.log(format!("Bytes::from(vec len={len} spare={spare})"));
                if len > 0 {
                    expect_ptr(d, "from_vec_spare", "result", b.as_ptr() as usize, p, "-");
                }
                expect_no_byte_alloc(d, "from_vec_spare", &ev, "-");
                d.add(Val::B(b), m, Origin::Heap);
            }
        }
        5 => {
            let len = pick_size(ch);
            let m = gen_bytes(id, len);
            let bx: Box<[u8]> = m.clone().into_boxed_slice();
            if let Some((b, _)) = run(d, "From<Box>", move || Bytes::from(bx)) {
                d.log(format!("Bytes::from(box len={len})"));
                d.add(Val::B(b), m, Origin::Heap);
            }
        }
        6 => {
            let len = pick_size(ch).min(200);
            let s: String = (0..len).map(|i| (b'a' + ((id as usize + i) % 26) as u8) as char).collect();
            let m = s.as_bytes().to_vec();
            if let Some((b, _)) = run(d, "From<String>", move || Bytes::from(s)) {
                d.log(format!("Bytes::from(string len={len})"));
                d.add(Val::B(b), m, Origin::Heap);
            }
        }
        7 => {
            let len = pick_size(ch);
            let m = gen_bytes(id, len);
            let m2 = m.clone();
            if let Some((b, _)) = run(d, "copy_from_slice", move || Bytes::copy_from_slice(&m2)) {
                d.log(format!("copy_from_slice len={len}"));
                d.add(Val::B(b), m, Origin::Heap);
            }
        }
        8 | 9 => from_owner(d, ch, id),
        10 => {
            if let Some((b, _)) = run(d, "BytesMut::new", BytesMut::new) {
                d.log("BytesMut::new".into());
                d.add(Val::M(b), Vec::new(), Origin::Heap);
            }
        }
        11 => {
            let cap = if ch.exhaustive() { [0usize, 1, 17, 64][ch.choose(4)] } else { [0usize, 1, 17, 64, 1024, 5000, 100, 2048][ch.choose(8)] };
            let fill = ch.choose(cap.min(40) + 1);
            if let Some((mut b, _)) = run(d, "with_capacity", move || BytesMut::with_capacity(cap)) {
                let m = gen_bytes(id, fill);
                let m2 = m.clone();
                if run(d, "extend_from_slice", || b.extend_from_slice(&m2)).is_some() {
                    d.log(format!("BytesMut::with_capacity({cap}) + {fill} bytes"));
                    d.add(Val::M(b), m, Origin::Heap);
                }
            }
        }
        12 => {
            let len = pick_size(ch);
            let m = gen_bytes(id, len);
            let m2 = m.clone();
            if let Some((b, _)) = run(d, "BytesMut::from(&[u8])", move || BytesMut::from(&m2[..])) {
                d.log(format!("BytesMut::from(slice len={len})"));
                d.add(Val::M(b), m, Origin::Heap);
            }
        }
        13 => {
            let len = pick_size(ch);
            if let Some((b, _)) = run(d, "zeroed", move || BytesMut::zeroed(len)) {
                d.log(format!("BytesMut::zeroed({len})"));
                d.add(Val::M(b), vec![0; len], Origin::Heap);
            }
        }
        14 => {
            let len = pick_size(ch).min(300);
            let m = gen_bytes(id, len);
            let m2 = m.clone();
            let as_bytes = ch.choose(2) == 0;
            if as_bytes {
                if let Some((b, _)) = run(d, "Bytes::from_iter", move || m2.into_iter().collect::<Bytes>()) {
                    d.log(format!("Bytes::from_iter len={len}"));
                    d.add(Val::B(b), m, Origin::Heap);
                }
            } else if let Some((b, _)) = run(d, "BytesMut::from_iter", move || m2.iter().collect::<BytesMut>()) {
                d.log(format!("BytesMut::from_iter len={len}"));
                d.add(Val::M(b), m, Origin::Heap);
            }
        }
        15 => {
            // the small From / Default conversions
            let k = ch.choose(5);
            let txt: &'static str = STATIC_TEXT;
            let off = ch.choose(8);
            let r = match k {
                0 => run(d, "Bytes::default", Bytes::default).map(|(b, _)| (Val::B(b), Vec::new(), Origin::Static)),
                1 => run(d, "From<&'static [u8]>", || Bytes::from(&STATIC_DATA[off..off + 9])).map(|(b, _)| (Val::B(b), STATIC_DATA[off..off + 9].to_vec(), Origin::Static)),
                2 => run(d, "From<&'static str>", || Bytes::from(&txt[off..])).map(|(b, _)| (Val::B(b), txt.as_bytes()[off..].to_vec(), Origin::Static)),
                3 => run(d, "BytesMut::default", BytesMut::default).map(|(b, _)| (Val::M(b), Vec::new(), Origin::Heap)),
                _ => run(d, "BytesMut::from(&str)", || BytesMut::from(&txt[off..])).map(|(b, _)| (Val::M(b), txt.as_bytes()[off..].to_vec(), Origin::Heap)),
            };
            if let Some((v, m, o)) = r {
                d.log(format!("small conversion {k}"));
                d.cell(format!("ctor|small|{k}"));
                d.add(v, m, o);
            }
        }
        _ => {
            let len = pick_size(ch);
            let spare = ch.choose(3) * 5;
            let m = gen_bytes(id, len);
            let mut v = Vec::with_capacity(len + spare);
            v.extend_from_slice(&m);
            d.log(format!("Vec len={len} spare={spare}"));
            d.add(Val::V(v), m, Origin::Heap);
        }
    }
}

fn from_owner(d: &mut Driver, ch: &mut dyn Chooser, id: u32) {
    let len = pick_size(ch).min(3000);
    let kind = ch.choose(7);
    let stats = Arc::new(OwnerStats::default());
    if kind == 6 {
        // an owner whose destructor panics: a self-contained probe (nothing joins the pool). Whichever call releases
        // the last view, the owner must have been dropped exactly once and the crate's block holding it must be
        // gone -- the leak balance at the end of the history sees it if it is not (C03)
        struct PanicDrop {
            buf: Vec<u8>,
            stats: Arc<OwnerStats>,
        }
        impl AsRef<[u8]> for PanicDrop {
            fn as_ref(&self) -> &[u8] {
                self.stats.as_ref_calls.fetch_add(1, std::sync::atomic::Ordering::Relaxed);
                &self.buf
            }
        }
        impl Drop for PanicDrop {
            fn drop(&mut self) {
                self.stats.drops.fetch_add(1, std::sync::atomic::Ordering::Relaxed);
                if !std::thread::panicking() {
                    panic!("owner destructor panics (injected)");
                }
            }
        }
        let how = ch.choose(4);
        let len = 1 + len.min(64);
        d.log(format!("from_owner with an owner whose destructor panics (len={len}); clone; last view released by way {how}"));
        d.count("owners_created");
        let o = PanicDrop { buf: gen_bytes(id, len), stats: stats.clone() };
        let r = crate::util::catch(move || {
            let b = Bytes::from_owner(o);
            let c = b.clone();
            drop(b);
            match how {
                0 => drop(c),
                1 => {
                    let v: Vec<u8> = c.into();
                    drop(v);
                }
                2 => {
                    let m = BytesMut::from(c);
                    drop(m);
                }
                _ => {
                    let s = c.slice(..1);
                    drop(c);
                    drop(s);
                }
            }
        })
        .map_err(|_msg| ());
        use std::sync::atomic::Ordering::Relaxed;
        if r.is_ok() {
            d.viol("C03", "owner-drop-panic-swallowed", "the owner's destructor panicked but the releasing call returned normally");
        }
        if stats.drops.load(Relaxed) != 1 || stats.as_ref_calls.load(Relaxed) != 1 {
            d.viol("C03", "owner-drop-count", &format!("owner with a panicking destructor: as_ref called {} times, dropped {} times", stats.as_ref_calls.load(Relaxed), stats.drops.load(Relaxed)));
        }
        d.cell(format!("ctor|from_owner|drop-panics|way{how}"));
        return;
    }
    if kind == 5 {
        // bytes stored inside an over-aligned owner: they live inside the crate's own owner box
        let len = len.min(192);
        let m = gen_bytes(id, len);
        let mut bytes = [0u8; 192];
        bytes[..len].copy_from_slice(&m);
        let owner = InlineOwner { bytes, len, stats: stats.clone() };
        d.log(format!("from_owner kind=5 (inline, align 64) len={len}"));
        d.count("owners_created");
        let r = crate::util::catch(move || Bytes::from_owner(owner));
        match r {
            Ok(bts) => {
                let lo = bts.as_ptr() as usize;
                {
                    let _p = mem::pause();
                    d.owners.push(OwnerRec { id, stats, lo, hi: lo + len });
                }
                if len > 0 && lo % 64 != 0 {
                    d.viol("C02", "owner-misaligned", &format!("an align(64) owner was placed at {lo:#x}"));
                }
                d.cell("ctor|from_owner|kind5".to_string());
                d.add(Val::B(bts), m, Origin::Owner(id));
            }
            Err(msg) => d.viol("C01", "unexpected-panic-from_owner", &msg),
        }
        return;
    }
    let (data, full): (OwnerData, Vec<u8>) = if kind == 1 {
        let off = ch.choose(32);
        (OwnerData::Stat(&STATIC_DATA[off..off + len]), STATIC_DATA[off..off + len].to_vec())
    } else {
        let m = gen_bytes(id, len);
        (OwnerData::Heap(m.clone()), m)
    };
    let (a, b) = match kind {
        2 => (0, 0),
        3 => {
            let a = ch.choose(len + 1);
            (a, a + ch.choose(len - a + 1))
        }
        _ => (0, len),
    };
    let panic_in_as_ref = kind == 4;
    let (lo, hi) = match &data {
        OwnerData::Heap(v) => (v.as_ptr() as usize, v.as_ptr() as usize + v.len()),
        OwnerData::Stat(s) => (s.as_ptr() as usize, s.as_ptr() as usize + s.len()),
    };
    let owner = TestOwner { data, a, b, panic_in_as_ref, stats: stats.clone() };
    d.log(format!("from_owner kind={kind} len={len} range={a}..{b}"));
    d.count("owners_created");
    mem::reset_events();
    let r = crate::util::catch(move || Bytes::from_owner(owner));
    let ev = mem::events();
    {
        let _p = mem::pause();
        d.owners.push(OwnerRec { id, stats, lo, hi });
    }
    match r {
        Ok(bts) => {
            if panic_in_as_ref {
                d.viol("C03", "owner-panic-swallowed", "from_owner returned although as_ref panicked");
                return;
            }
            expect_no_byte_alloc(d, "from_owner", &ev, "-");
            if b > a {
                expect_ptr(d, "from_owner", "result", bts.as_ptr() as usize, lo + a, "-");
            }
            d.cell(format!("ctor|from_owner|kind{kind}"));
            d.add(Val::B(bts), full[a..b].to_vec(), Origin::Owner(id));
        }
        Err(msg) => {
            if !panic_in_as_ref {
                d.viol("C01", "unexpected-panic-from_owner", &msg);
            } else {
                d.cell("ctor|from_owner|as_ref-panics".to_string());
            }
            // m03 checks that the owner was dropped exactly once
        }
    }
}

// ------------------------------------------------------------------ start states

pub const N_STARTS: usize = 17;

/// Put the pool into one of the named start states (for bounded-exhaustive enumeration).
pub fn start_state(d: &mut Driver, which: usize) {
    let id = d.fresh_id();
    let n = 12usize;
    let m = gen_bytes(id, n);
    let exact = |m: &Vec<u8>| {
        let mut v = Vec::with_capacity(m.len());
        v.extend_from_slice(m);
        v
    };
    match which {
        0 => {
            d.log("start static".into());
            d.add(Val::B(Bytes::from_static(&STATIC_DATA[3..3 + n])), STATIC_DATA[3..3 + n].to_vec(), Origin::Static);
        }
        1 => {
            d.log("start promotable".into());
            d.add(Val::B(Bytes::from(exact(&m))), m, Origin::Heap);
        }
        2 => {
            d.log("start shared rc=1 (vec with spare)".into());
            let mut v = Vec::with_capacity(n + 4);
            v.extend_from_slice(&m);
            d.add(Val::B(Bytes::from(v)), m, Origin::Heap);
        }
        3 => {
            d.log("start promoted rc=2 with sibling".into());
            let b = Bytes::from(exact(&m));
            let c = b.clone();
            d.add(Val::B(b), m.clone(), Origin::Heap);
            d.add(Val::B(c), m, Origin::Heap);
        }
        4 => {
            d.log("start promoted rc=1 (sibling dropped), advanced".into());
            let mut b = Bytes::from(exact(&m));
            drop(b.clone());
            bytes::Buf::advance(&mut b, 3);
            d.add(Val::B(b), m[3..].to_vec(), Origin::Heap);
        }
        5 => {
            d.log("start owner".into());
            let stats = Arc::new(OwnerStats::default());
            let data = m.clone();
            let (lo, hi) = (data.as_ptr() as usize, data.as_ptr() as usize + n);
            let o = TestOwner { data: OwnerData::Heap(data), a: 0, b: n, panic_in_as_ref: false, stats: stats.clone() };
            let b = Bytes::from_owner(o);
            {
                let _p = mem::pause();
                d.owners.push(OwnerRec { id, stats, lo, hi });
            }
            d.add(Val::B(b), m, Origin::Owner(id));
        }
        6 => {
            d.log("start frozen KIND_ARC (split then freeze)".into());
            let mut bm = BytesMut::with_capacity(32);
            bm.extend_from_slice(&m);
            let tail = bm.split_off(8);
            d.add(Val::B(bm.freeze()), m[..8].to_vec(), Origin::Heap);
            d.add(Val::M(tail), m[8..].to_vec(), Origin::Heap);
        }
        7 => {
            d.log("start frozen inline-Vec with front offset".into());
            let mut bm = BytesMut::with_capacity(32);
            bm.extend_from_slice(&m);
            bytes::Buf::advance(&mut bm, 4);
            d.add(Val::B(bm.freeze()), m[4..].to_vec(), Origin::Heap);
        }
        8 => {
            d.log("start BytesMut inline off=0 with spare".into());
            let mut bm = BytesMut::with_capacity(32);
            bm.extend_from_slice(&m);
            d.add(Val::M(bm), m, Origin::Heap);
        }
        9 => {
            d.log("start BytesMut inline off>0".into());
            let mut bm = BytesMut::with_capacity(32);
            bm.extend_from_slice(&m);
            bytes::Buf::advance(&mut bm, 5);
            d.add(Val::M(bm), m[5..].to_vec(), Origin::Heap);
        }
        10 => {
            d.log("start BytesMut shared unique (sibling dropped) at offset".into());
            let mut bm = BytesMut::with_capacity(32);
            bm.extend_from_slice(&m);
            let head = bm.split_to(4);
            drop(head);
            d.add(Val::M(bm), m[4..].to_vec(), Origin::Heap);
        }
        11 => {
            d.log("start BytesMut shared with sibling".into());
            let mut bm = BytesMut::with_capacity(32);
            bm.extend_from_slice(&m);
            let head = bm.split_to(4);
            d.add(Val::M(head), m[..4].to_vec(), Origin::Heap);
            d.add(Val::M(bm), m[4..].to_vec(), Origin::Heap);
        }
        12 => {
            d.log("start two full BytesMut from consecutive allocations, both shared".into());
            let id2 = d.fresh_id();
            let m2 = gen_bytes(id2, 16);
            let m1 = m[..].to_vec();
            // allocate both buffers first so that nothing lies between them
            let mut a = BytesMut::with_capacity(n);
            let mut b = BytesMut::with_capacity(16);
            a.extend_from_slice(&m1);
            b.extend_from_slice(&m2);
            drop(a.split_off(n));
            drop(b.split_off(16));
            d.add(Val::M(a), m1, Origin::Heap);
            d.add(Val::M(b), m2, Origin::Heap);
        }
        13 => {
            d.log("start empty BytesMut that came back from a truncated, never-cloned exact Bytes".into());
            // Bytes::truncate on the unpromoted form must keep the allocation size recoverable: the sole,
            // empty owner below must be able to reclaim all n bytes (C08), on even and odd addresses
            let mut b = Bytes::from(exact(&m));
            b.truncate(5);
            let mut bm = BytesMut::from(b);
            bm.clear();
            d.add(Val::M(bm), Vec::new(), Origin::Heap);
        }
        14 => {
            d.log("start frozen survivor of a split whose sibling was converted to Vec while shared".into());
            // the survivor is alone on the buffer again: converting it back must not copy (C07/C08)
            let mut bm = BytesMut::with_capacity(32);
            bm.extend_from_slice(&m);
            let head = bm.split_to(4);
            let v: Vec<u8> = head.into();
            d.add(Val::V(v), m[..4].to_vec(), Origin::Heap);
            d.add(Val::B(bm.freeze()), m[4..].to_vec(), Origin::Heap);
        }
        15 => {
            d.log("start two full never-split BytesMut of equal size from consecutive allocations".into());
            // both in the inline-Vec form with identical `data` words (offset 0, same capacity class): only the
            // representation test keeps unsplit from treating them as halves of one buffer when they are adjacent
            let id2 = d.fresh_id();
            let m2 = gen_bytes(id2, n);
            let m1 = m[..].to_vec();
            let mut a = BytesMut::with_capacity(n);
            let mut b = BytesMut::with_capacity(n);
            a.extend_from_slice(&m1);
            b.extend_from_slice(&m2);
            d.add(Val::M(a), m1, Origin::Heap);
            d.add(Val::M(b), m2, Origin::Heap);
        }
        _ => {
            d.log("start BytesMut exact (len==cap) + empty sibling".into());
            let mut bm = BytesMut::from(&m[..]);
            let e = bm.split_off(n);
            d.add(Val::M(bm), m, Origin::Heap);
            d.add(Val::M(e), Vec::new(), Origin::Heap);
        }
    }
}

// ------------------------------------------------------------------ dispatcher

/// One step of a history.
pub fn step(d: &mut Driver, ch: &mut dyn Chooser, allow_ctor: bool) {
    if d.pool.is_empty() || (allow_ctor && d.pool.len() < MAXPOOL && ch.chance(3, 20)) {
        let w = ch.choose(N_CTORS);
        let w = if d.profile == Profile::MutCentred && w < 10 && !ch.exhaustive() && ch.chance(2, 3) { 10 + ch.choose(5) } else { w };
        construct(d, ch, w);
        if !d.failed {
            d.check_all();
        }
        return;
    }
    let i = ch.choose(d.pool.len());
    d.hist_steps += 1;
    // exhaustive mode: the first step is an out-of-contract call, the rest are continuations
    let do_ooc = d.ooc && if ch.exhaustive() { d.hist_steps == 1 } else { ch.chance(1, 4) };
    if do_ooc {
        super::ops_ooc::ooc_step(d, ch, i);
    } else {
        let full = d.pool.len() >= MAXPOOL;
        match d.pool[i].val {
            Val::B(_) => super::ops_b::bytes_step(d, ch, i, full),
            Val::M(_) => super::ops_m::mut_step(d, ch, i, full),
            Val::V(_) => super::ops_m::vec_step(d, ch, i),
        }
    }
    if !d.failed {
        d.check_all();
    }
    if !d.failed && !ch.exhaustive() && d.steps % 8 == 0 {
        // periodic write probe on some BytesMut
        let ms: Vec<usize> = (0..d.pool.len()).filter(|&k| matches!(d.pool[k].val, Val::M(_))).collect();
        if !ms.is_empty() {
            let k = ms[ch.choose(ms.len())];
            d.write_probe(k);
        }
    }
}
