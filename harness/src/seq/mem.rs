//! Facade over the ledger so that the engines also build without it (ASan / Miri / valgrind).
#[cfg(feature = "ledger")]
pub use crate::ledger::{Block, Events};

#[cfg(not(feature = "ledger"))]
#[derive(Clone, Copy, Debug, PartialEq, Eq)]
pub struct Block {
    pub user: usize,
    pub size: usize,
    pub seq: u64,
    pub tag: u32,
    pub live: bool,
    pub isbyte: bool,
}
#[cfg(not(feature = "ledger"))]
#[derive(Clone, Copy, Default, Debug, PartialEq, Eq)]
pub struct Events {
    pub byte_allocs: u32,
    pub byte_alloc_bytes: usize,
    pub byte_frees: u32,
    pub other_allocs: u32,
    pub other_frees: u32,
    pub max_byte_alloc: usize,
}

pub const ENABLED: bool = cfg!(feature = "ledger");

#[cfg(feature = "ledger")]
mod imp {
    use crate::ledger as l;
    pub fn find_live(a: usize) -> Option<l::Block> {
        l::find_live(a)
    }
    pub fn find_freed(a: usize) -> Option<l::Block> {
        l::find_freed(a)
    }
    pub fn packed() -> bool {
        l::is_packed()
    }
    pub fn scope_enter(tag: u32) {
        l::scope_enter(tag)
    }
    pub fn scope_exit() {
        l::scope_exit();
    }
    pub fn reset_events() {
        l::reset_events()
    }
    pub fn events() -> l::Events {
        l::events()
    }
    pub fn pause() -> l::Pause {
        l::Pause::new()
    }
    pub fn tagged_live(tag: u32) -> (usize, usize) {
        l::tagged_live(tag)
    }
    pub fn sweep(deep: bool) {
        l::sweep(deep)
    }
    pub fn flush_quarantine() {
        l::flush_quarantine()
    }
    pub fn violations() -> Vec<String> {
        if l::violation_count() == 0 {
            return Vec::new();
        }
        l::take_violations().iter().map(|v| format!("{:?}|{}", v.kind, l::describe(v))).collect()
    }
    pub fn leak_list(tag: u32) -> String {
        l::tagged_live_list(tag, 4).iter().map(|b| format!("[{:#x} size={} byte={} seq={}]", b.user, b.size, b.isbyte, b.seq)).collect::<Vec<_>>().join(" ")
    }
}

#[cfg(not(feature = "ledger"))]
mod imp {
    use super::{Block, Events};
    pub struct Pause;
    pub fn find_live(_a: usize) -> Option<Block> {
        None
    }
    pub fn find_freed(_a: usize) -> Option<Block> {
        None
    }
    pub fn packed() -> bool {
        false
    }
    pub fn scope_enter(_tag: u32) {}
    pub fn scope_exit() {}
    pub fn reset_events() {}
    pub fn events() -> Events {
        Events::default()
    }
    pub fn pause() -> Pause {
        Pause
    }
    pub fn tagged_live(_tag: u32) -> (usize, usize) {
        (0, 0)
    }
    pub fn sweep(_deep: bool) {}
    pub fn flush_quarantine() {}
    pub fn violations() -> Vec<String> {
        Vec::new()
    }
    pub fn leak_list(_tag: u32) -> String {
        String::new()
    }
}
pub use imp::*;
