//! Handle pool, value model and the per-step monitors of E1.
use super::mem;
use crate::out::Obs;
use crate::rng::{fnv, fnv_u64, mix2};
use bytes::verif::{Kind, Repr};
use bytes::{Buf, Bytes, BytesMut};
use std::collections::BTreeMap;
use std::sync::atomic::{AtomicU32, Ordering::Relaxed};
use std::sync::Arc;

pub const MAXPOOL: usize = 6;

pub static STATIC_DATA: [u8; 4096] = {
    let mut a = [0u8; 4096];
    let mut i = 0;
    while i < 4096 {
        a[i] = ((i * 7 + 13) ^ (i >> 3)) as u8;
        i += 1;
    }
    a
};

pub static STATIC_TEXT: &str = "static text for From<&'static str> 0123456789";

pub fn in_static(ptr: usize, len: usize) -> bool {
    let s = STATIC_DATA.as_ptr() as usize;
    let t = STATIC_TEXT.as_ptr() as usize;
    (ptr >= s && ptr + len <= s + STATIC_DATA.len()) || (ptr >= t && ptr + len <= t + STATIC_TEXT.len())
}

/// Contents of buffer `id`: byte i = f(id, i), so a read identifies buffer and offset.
pub fn gen_bytes(id: u32, len: usize) -> Vec<u8> {
    (0..len).map(|i| (mix2(id as u64, i as u64) >> 17) as u8).collect()
}

#[derive(Clone, Copy, PartialEq, Eq, Debug)]
pub enum Origin {
    Static,
    Owner(u32),
    Heap,
}

pub enum Val {
    B(Bytes),
    M(BytesMut),
    V(Vec<u8>),
}

pub struct Slot {
    pub val: Val,
    pub model: Vec<u8>,
    pub origin: Origin,
    pub id: u32,
}

impl Slot {
    pub fn ptr(&self) -> usize {
        match &self.val {
            Val::B(b) => b.as_ptr() as usize,
            Val::M(m) => m.as_ptr() as usize,
            Val::V(v) => v.as_ptr() as usize,
        }
    }
    pub fn len(&self) -> usize {
        match &self.val {
            Val::B(b) => b.len(),
            Val::M(m) => m.len(),
            Val::V(v) => v.len(),
        }
    }
    pub fn cap(&self) -> usize {
        match &self.val {
            Val::B(b) => b.len(),
            Val::M(m) => m.capacity(),
            Val::V(v) => v.capacity(),
        }
    }
    pub fn repr(&self) -> Option<Repr> {
        match &self.val {
            Val::B(b) => Some(b.__verif_repr()),
            Val::M(m) => Some(m.__verif_repr()),
            Val::V(_) => None,
        }
    }
    pub fn tname(&self) -> &'static str {
        match &self.val {
            Val::B(_) => "B",
            Val::M(_) => "M",
            Val::V(_) => "V",
        }
    }
    /// short representation name used in coverage cells
    pub fn rname(&self) -> String {
        match self.repr() {
            None => "Vec".into(),
            Some(r) => {
                let rc = match r.refcnt {
                    None => "",
                    Some(1) => "1",
                    Some(2) => "2",
                    Some(_) => "n",
                };
                let off = if r.kind == Kind::MutVec && r.vec_off > 0 { "+off" } else { "" };
                let tv = if r.tagged_vec { "v" } else { "" };
                format!("{:?}{}{}{}", r.kind, tv, rc, off)
            }
        }
    }
    pub fn as_slice(&self) -> &[u8] {
        match &self.val {
            Val::B(b) => &b[..],
            Val::M(m) => &m[..],
            Val::V(v) => &v[..],
        }
    }
}

// ------------------------------------------------------------------ instrumented owners

#[derive(Default)]
pub struct OwnerStats {
    pub as_ref_calls: AtomicU32,
    pub drops: AtomicU32,
}

pub enum OwnerData {
    Heap(Vec<u8>),
    Stat(&'static [u8]),
}

pub struct TestOwner {
    pub data: OwnerData,
    pub a: usize,
    pub b: usize,
    pub panic_in_as_ref: bool,
    pub stats: Arc<OwnerStats>,
}

impl AsRef<[u8]> for TestOwner {
    fn as_ref(&self) -> &[u8] {
        self.stats.as_ref_calls.fetch_add(1, Relaxed);
        if self.panic_in_as_ref {
            panic!("owner as_ref panics (injected)");
        }
        match &self.data {
            OwnerData::Heap(v) => &v[self.a..self.b],
            OwnerData::Stat(s) => &s[self.a..self.b],
        }
    }
}
impl Drop for TestOwner {
    fn drop(&mut self) {
        self.stats.drops.fetch_add(1, Relaxed);
    }
}

/// An owner that stores its bytes inline and is aligned more strictly than the crate's own header
/// (the layout of the crate's owner box must not depend on the owner's alignment).
#[repr(C, align(64))]
pub struct InlineOwner {
    pub bytes: [u8; 192],
    pub len: usize,
    pub stats: Arc<OwnerStats>,
}
impl AsRef<[u8]> for InlineOwner {
    fn as_ref(&self) -> &[u8] {
        self.stats.as_ref_calls.fetch_add(1, Relaxed);
        &self.bytes[..self.len]
    }
}
impl Drop for InlineOwner {
    fn drop(&mut self) {
        self.stats.drops.fetch_add(1, Relaxed);
    }
}

pub struct OwnerRec {
    pub id: u32,
    pub stats: Arc<OwnerStats>,
    /// memory range of the owner's data
    pub lo: usize,
    pub hi: usize,
}

// ------------------------------------------------------------------ driver

#[derive(Clone, Copy, Debug, PartialEq, Eq)]
pub struct Snap {
    pub ptr: usize,
    pub len: usize,
    pub cap: usize,
    pub h: u64,
}

pub struct Driver {
    pub pool: Vec<Slot>,
    pub owners: Vec<OwnerRec>,
    pub obs: Obs,
    pub trace: Vec<String>,
    pub case: String,
    pub next_id: u32,
    pub tag: u32,
    pub failed: bool,
    pub soft_failed: bool,
    /// the property whose check is running ("" = none given)
    pub primary: String,
    pub ooc: bool,
    pub digest: u64,
    pub steps: u64,
    pub hist_steps: u64,
    pub profile: Profile,
    pub props: u32, // bitmask of properties whose monitors may report (all run; others -> NOTE)
}

#[derive(Clone, Copy, PartialEq, Eq, Debug)]
pub enum Profile {
    General,
    MutCentred,
}

impl Driver {
    pub fn new() -> Driver {
        Driver {
            pool: Vec::with_capacity(64),
            owners: Vec::new(),
            obs: Obs::new(),
            trace: Vec::new(),
            case: String::new(),
            next_id: 1,
            tag: 1,
            failed: false,
            soft_failed: false,
            primary: String::new(),
            ooc: false,
            digest: 0,
            steps: 0,
            hist_steps: 0,
            profile: Profile::General,
            props: !0,
        }
    }

    pub fn fresh_id(&mut self) -> u32 {
        self.next_id += 1;
        self.next_id
    }

    pub fn log(&mut self, s: String) {
        let _p = mem::pause();
        self.trace.push(s);
    }

    pub fn viol(&mut self, prop: &str, sig: &str, detail: &str) {
        let _p = mem::pause();
        // address / uniqueness findings leave the values intact: the history goes on so that one
        // property's finding cannot hide another's (only the end-of-history balance is skipped)
        // A finding aborts the history only if it belongs to the property being checked or means that
        // values / memory can no longer be trusted (C01, C02). Findings of other monitors are recorded
        // (the orchestrator lists them as collateral) and the history goes on, so that one property's
        // finding cannot hide another's; only the end-of-history balance is skipped then.
        let hard = prop == self.primary || prop == "C01" || prop == "C02" || (self.primary.is_empty() && prop != "C07" && prop != "C08");
        if hard {
            self.failed = true;
        } else {
            self.soft_failed = true;
        }
        let tr = if self.trace.len() > 40 {
            format!("...{}", self.trace[self.trace.len() - 40..].join("; "))
        } else {
            self.trace.join("; ")
        };
        let d = format!("{detail} || trace: {tr}");
        let case = self.case.clone();
        self.obs.viol(prop, sig, &case, &d);
    }

    pub fn cell(&mut self, c: String) {
        let _p = mem::pause();
        self.obs.cell(c);
    }
    pub fn sample_trace(&mut self) {
        let _p = mem::pause();
        let t = self.trace.join("; ");
        self.obs.sample(format!("{}: {}", self.case, t));
    }
    pub fn count(&mut self, k: &str) {
        let _p = mem::pause();
        self.obs.inc(k);
    }

    pub fn add(&mut self, val: Val, model: Vec<u8>, origin: Origin) -> usize {
        let id = self.fresh_id();
        self.pool.push(Slot { val, model, origin, id });
        self.pool.len() - 1
    }

    pub fn dg(&mut self, v: u64) {
        self.digest = fnv_u64(self.digest, v);
    }

    // -------------------------------------------------------------- history lifecycle

    pub fn begin(&mut self, case: String) {
        {
            let _p = mem::pause();
            self.case = case;
            self.trace.clear();
        }
        self.failed = false;
        self.soft_failed = false;
        self.digest = 0;
        self.hist_steps = 0;
        self.tag = self.tag.wrapping_add(1).max(2);
        mem::scope_enter(self.tag);
    }

    /// Drop all survivors in the order given by `order` (indices into the remaining pool),
    /// checking after each drop, then check the leak balance.
    pub fn finish(&mut self, ch: &mut dyn super::chooser::Chooser, all_orders: bool) {
        if !self.failed {
            let mut drops = 0;
            while !self.pool.is_empty() && !self.failed {
                let n = self.pool.len();
                // exhaustive mode: every order of <= 3 survivors; walks: a random order
                let i = if (all_orders && n <= 3) || !ch.exhaustive() { ch.choose(n) } else { n - 1 };
                let s = self.pool.swap_remove(i);
                self.log(format!("enddrop {}{}", s.tname(), s.id));
                let r = crate::util::catch(move || drop(s));
                if r.is_err() {
                    self.viol("C01", "panic-in-drop", "drop panicked");
                }
                drops += 1;
                self.check_all();
            }
            let _ = drops;
            self.count("drop_orders");
        }
        // clear whatever is left (after a violation) without further checks
        let rest: Vec<Slot> = self.pool.drain(..).collect();
        let _ = crate::util::catch(move || drop(rest));
        if !self.failed {
            // every owner must now have been dropped exactly once
            let owners = std::mem::take(&mut self.owners);
            for o in &owners {
                let d = o.stats.drops.load(Relaxed);
                if d != 1 {
                    self.viol("C03", "owner-drop-count-at-end", &format!("owner {} dropped {} times after all handles are gone", o.id, d));
                }
                self.count("owner_final_checks");
            }
            drop(owners);
            mem::sweep(true);
            self.drain_ledger();
        } else {
            self.owners.clear();
            let _ = mem::violations();
        }
        {
            let _p = mem::pause();
            self.trace.clear();
            self.trace.shrink_to_fit();
        }
        if mem::ENABLED && !self.failed && !self.soft_failed {
            let (c, b) = mem::tagged_live(self.tag);
            self.count("balance_checks");
            if c != 0 {
                let l = mem::leak_list(self.tag);
                self.viol("C03", "leak", &format!("{c} block(s), {b} bytes allocated during this history still live after all handles were dropped: {l}"));
            }
        }
        mem::scope_exit();
        mem::flush_quarantine();
    }

    pub fn drain_ledger(&mut self) {
        for v in mem::violations() {
            let kind = v.split('|').next().unwrap_or("?").to_string();
            let prop = if kind == "DoubleFree" { "C02" } else { "C02" };
            self.viol(prop, &format!("ledger-{kind}"), &v);
        }
    }

    // -------------------------------------------------------------- snapshots (C13)

    pub fn snapshot(&self) -> Vec<Snap> {
        self.pool.iter().map(|s| Snap { ptr: s.ptr(), len: s.len(), cap: s.cap(), h: fnv(0, s.as_slice()) }).collect()
    }

    // -------------------------------------------------------------- monitors

    /// Run every monitor over the whole pool (called after every op: a quiescent point).
    pub fn check_all(&mut self) {
        self.steps += 1;
        // every monitor looks at the same quiescent state; one firing must not hide the others
        self.m01_value();
        self.m02_memory();
        self.m03_release();
        self.m04_regions();
        self.m08_unique();
    }

    fn m01_value(&mut self) {
        let mut bad: Option<(String, String)> = None;
        let mut cmp = 0u64;
        let mut dg = self.digest;
        for s in &self.pool {
            cmp += 1;
            let sl = s.as_slice();
            dg = fnv_u64(dg, s.len() as u64);
            dg = fnv(dg, &s.model);
            if let Val::M(m) = &s.val {
                dg = fnv_u64(dg, m.capacity() as u64);
            }
            if sl.len() != s.model.len() {
                bad = Some(("len".into(), format!("{}{} len()={} model={}", s.tname(), s.id, sl.len(), s.model.len())));
                break;
            }
            if sl != &s.model[..] {
                let k = sl.iter().zip(&s.model).position(|(a, b)| a != b).unwrap_or(0);
                bad = Some(("content".into(), format!("{}{} ({}) differs from model at {} (got {:#x} want {:#x}) len={}", s.tname(), s.id, s.rname(), k, sl[k], s.model[k], sl.len())));
                break;
            }
            match &s.val {
                Val::B(b) => {
                    let bor: &[u8] = std::borrow::Borrow::borrow(b);
                    if bor != &s.model[..] || !b.into_iter().eq(s.model.iter()) {
                        bad = Some(("borrow-view".into(), format!("B{} Borrow<[u8]> / &Bytes::into_iter disagree with model", s.id)));
                        break;
                    }
                    if b.remaining() != s.model.len() || b.chunk() != &s.model[..] || b.is_empty() != s.model.is_empty() {
                        bad = Some(("buf-view".into(), format!("B{} remaining/chunk disagree with model", s.id)));
                        break;
                    }
                }
                Val::M(m) => {
                    let bor: &[u8] = std::borrow::Borrow::borrow(m);
                    if bor != &s.model[..] || !m.into_iter().eq(s.model.iter()) || AsRef::<[u8]>::as_ref(m) != &s.model[..] {
                        bad = Some(("borrow-view".into(), format!("M{} Borrow<[u8]> / AsRef / &BytesMut::into_iter disagree with model", s.id)));
                        break;
                    }
                    if m.remaining() != s.model.len() || m.chunk() != &s.model[..] || m.capacity() < m.len() {
                        bad = Some(("buf-view".into(), format!("M{} remaining/chunk/capacity disagree with model", s.id)));
                        break;
                    }
                }
                Val::V(_) => {}
            }
        }
        self.digest = dg;
        {
            let _p = mem::pause();
            self.obs.add("compares", cmp);
        }
        if let Some((sig, d)) = bad {
            self.viol("C01", &format!("value-{sig}"), &d);
        }
    }

    /// where a handle's bytes live: Some(block) / static / owner / nothing to check
    fn locate(&self, ptr: usize, len: usize) -> Loc {
        if len == 0 {
            return Loc::Nothing;
        }
        if in_static(ptr, len) {
            return Loc::Static;
        }
        if let Some(b) = mem::find_live(ptr) {
            if ptr + len <= b.user + b.size {
                return Loc::Block(b);
            }
            return Loc::Straddle(b);
        }
        if let Some(b) = mem::find_freed(ptr) {
            return Loc::Freed(b);
        }
        Loc::Unknown
    }

    fn m02_memory(&mut self) {
        self.drain_ledger();
        if !mem::ENABLED {
            return;
        }
        mem::sweep(false);
        self.drain_ledger();
        let mut found: Vec<(String, String, String)> = Vec::new();
        let mut checks = 0u64;
        for s in &self.pool {
            let (ptr, len) = match &s.val {
                Val::B(b) => (b.as_ptr() as usize, b.len()),
                Val::M(m) => (m.as_ptr() as usize, m.capacity()),
                Val::V(_) => continue,
            };
            checks += 1;
            match self.locate(ptr, len) {
                Loc::Nothing | Loc::Static | Loc::Block(_) => {}
                Loc::Straddle(b) => {
                    found.push(("C02".into(), "range-straddle".into(), format!("{}{} [{:#x},+{}) extends past block [{:#x},+{})", s.tname(), s.id, ptr, len, b.user, b.size)));
                    // the readable part runs on into storage that has already been released
                    // (back-to-back placement): the view outlives (part of) what it reads
                    let rl = s.len();
                    let end = b.user + b.size;
                    if rl > 0 && ptr + rl > end {
                        if let Some(f) = mem::find_freed(end) {
                            if f.user == end {
                                found.push(("C03".into(), "early-free".into(), format!("{}{} is live and reads [{:#x},+{}) but the block seq={} holding its tail was already freed", s.tname(), s.id, ptr, rl, f.seq)));
                            }
                        }
                    }
                }
                Loc::Freed(b) => {
                    found.push(("C02".into(), "range-freed".into(), format!("{}{} [{:#x},+{}) lies in freed block seq={}", s.tname(), s.id, ptr, len, b.seq)));
                    found.push(("C03".into(), "early-free".into(), format!("{}{} is live and non-empty but its block seq={} was already freed", s.tname(), s.id, b.seq)));
                }
                Loc::Unknown => found.push(("C02".into(), "range-unknown".into(), format!("{}{} [{:#x},+{}) is in no live allocation", s.tname(), s.id, ptr, len))),
            }
        }
        {
            let _p = mem::pause();
            self.obs.add("range_checks", checks);
        }
        for (p, sig, d) in found {
            self.viol(&p, &sig, &d);
        }
    }

    fn m03_release(&mut self) {
        // refcount conservation through H2
        let mut per: BTreeMap<usize, (usize, usize)> = BTreeMap::new();
        for s in &self.pool {
            if let Some(r) = s.repr() {
                if r.ctrl != 0 {
                    let e = per.entry(r.ctrl).or_insert((r.refcnt.unwrap_or(0), 0));
                    e.1 += 1;
                }
            }
        }
        let n = per.len() as u64;
        let mut bad = None;
        for (c, (stored, have)) in &per {
            if stored != have {
                bad = Some(format!("control block {:#x}: stored count {} but {} live handles", c, stored, have));
            }
        }
        drop(per);
        {
            let _p = mem::pause();
            self.obs.add("conservation_checks", n);
        }
        if let Some(d) = bad {
            self.viol("C03", "refcount-conservation", &d);
        }
        // owners
        let mut found = Vec::new();
        for o in &self.owners {
            let calls = o.stats.as_ref_calls.load(Relaxed);
            let drops = o.stats.drops.load(Relaxed);
            if calls != 1 {
                found.push(("owner-as-ref-count", format!("owner {} as_ref called {} times", o.id, calls)));
            }
            let mut any = false;
            let mut nonempty = false;
            for s in &self.pool {
                if s.origin == Origin::Owner(o.id) {
                    if let Val::B(b) = &s.val {
                        // detached empties (static vtable) hold nothing
                        let holds = b.__verif_repr().kind == Kind::Owned;
                        if holds || !b.is_empty() {
                            any = true;
                        }
                        if !b.is_empty() {
                            nonempty = true;
                        }
                    }
                }
            }
            if drops > 1 {
                found.push(("owner-double-drop", format!("owner {} dropped {} times", o.id, drops)));
            }
            if nonempty && drops != 0 {
                found.push(("owner-early-drop", format!("owner {} dropped while a non-empty view is alive", o.id)));
            }
            if !any && drops != 1 {
                found.push(("owner-late-drop", format!("owner {} not dropped although no handle refers to it (drops={})", o.id, drops)));
            }
        }
        let k = self.owners.len() as u64;
        {
            let _p = mem::pause();
            self.obs.add("owner_checks", k);
        }
        for (sig, d) in found {
            self.viol("C03", sig, &d);
        }
    }

    fn m04_regions(&mut self) {
        if !mem::ENABLED {
            // without the ledger only pairwise disjointness can be checked
        }
        let mut regs: Vec<(usize, usize, usize, bool)> = Vec::new(); // (start,end,id,is_mut)
        for s in &self.pool {
            match &s.val {
                Val::M(m) if m.capacity() > 0 => regs.push((m.as_ptr() as usize, (m.as_ptr() as usize).wrapping_add(m.capacity()), s.id as usize, true)),
                Val::B(b) if !b.is_empty() => regs.push((b.as_ptr() as usize, b.as_ptr() as usize + b.len(), s.id as usize, false)),
                _ => {}
            }
        }
        let mut bad = Vec::new();
        let mut pairs = 0u64;
        for i in 0..regs.len() {
            if regs[i].3 {
                let (a0, a1, ida, _) = regs[i];
                if a1 < a0 {
                    bad.push(("region-wraps", format!("M{} region wraps the address space (cap too large)", ida)));
                }
                if mem::ENABLED {
                    match mem::find_live(a0) {
                        Some(b) if b.isbyte && a1 <= b.user + b.size && a1 >= a0 => {}
                        Some(b) => bad.push(("region-not-contained", format!("M{} region [{:#x},+{}) not inside block [{:#x},+{})", ida, a0, a1.wrapping_sub(a0), b.user, b.size))),
                        None => bad.push(("region-not-contained", format!("M{} region [{:#x},+{}) is in no live byte buffer", ida, a0, a1.wrapping_sub(a0)))),
                    }
                }
            }
            for j in 0..regs.len() {
                if i == j || !(regs[i].3) || (regs[j].3 && j < i) {
                    continue;
                }
                pairs += 1;
                let (a0, a1, ida, _) = regs[i];
                let (b0, b1, idb, bm) = regs[j];
                if a0 < b1 && b0 < a1 {
                    bad.push(("region-overlap", format!("M{} [{:#x},{:#x}) overlaps {}{} [{:#x},{:#x})", ida, a0, a1, if bm { "M" } else { "B" }, idb, b0, b1)));
                }
            }
        }
        drop(regs);
        {
            let _p = mem::pause();
            self.obs.add("region_pair_checks", pairs);
        }
        for (sig, d) in bad {
            self.viol("C04", sig, &d);
        }
    }

    /// Handles (by pool index) that hold a reference into ledger block `seq` (or, without a
    /// ledger, share the control block / buffer start reported by H2).
    pub fn storage_key(&self, s: &Slot) -> Option<u64> {
        let r = s.repr()?;
        if r.kind == Kind::Static {
            return None;
        }
        if r.kind == Kind::Owned {
            return Some(r.ctrl as u64 | (1 << 63));
        }
        if mem::ENABLED {
            let p = s.ptr();
            if let Val::M(m) = &s.val {
                if m.capacity() == 0 && r.kind == Kind::MutVec {
                    return None;
                }
            }
            if mem::packed() && r.buf_start != 0 {
                // back-to-back placement: an empty handle at the end of its block has the address of the
                // next block's start, so identify the storage by the buffer start reported by H2
                return mem::find_live(r.buf_start).map(|b| b.seq);
            }
            mem::find_live(p).map(|b| b.seq)
        } else if r.buf_start != 0 && r.buf_cap != 0 {
            Some(r.buf_start as u64)
        } else {
            None
        }
    }

    /// three-valued expectation for is_unique of pool[i]
    pub fn unique_expect(&self, i: usize) -> Option<bool> {
        let s = &self.pool[i];
        match s.origin {
            Origin::Static | Origin::Owner(_) => return Some(false),
            Origin::Heap => {}
        }
        let r = s.repr()?;
        if r.kind == Kind::Static {
            // an empty, detached handle of heap lineage: static vtable, documented false
            return Some(false);
        }
        let key = self.storage_key(s)?;
        let mut others_nonempty = false;
        let mut others_empty = false;
        for (j, o) in self.pool.iter().enumerate() {
            if j == i {
                continue;
            }
            if matches!(o.val, Val::V(_)) {
                continue;
            }
            if self.storage_key(o) == Some(key) {
                if o.len() > 0 {
                    others_nonempty = true;
                } else {
                    others_empty = true;
                }
            }
        }
        if others_nonempty {
            Some(false)
        } else if others_empty {
            None
        } else {
            Some(true)
        }
    }

    fn m08_unique(&mut self) {
        let mut found = Vec::new();
        let mut evals: Vec<String> = Vec::new();
        let mut dg = self.digest;
        for i in 0..self.pool.len() {
            if let Val::B(b) = &self.pool[i].val {
                let got = b.is_unique();
                dg = fnv_u64(dg, got as u64);
                let exp = self.unique_expect(i);
                let _p = mem::pause();
                evals.push(format!("uniq|{}|exp={:?}|got={}", self.pool[i].rname(), exp, got));
                if let Some(e) = exp {
                    if e != got {
                        found.push((format!("is_unique-{}-expected-{}", got, e), format!("B{} ({}) is_unique()={} but expected {} (origin {:?})", self.pool[i].id, self.pool[i].rname(), got, e, self.pool[i].origin)));
                    }
                }
            }
        }
        self.digest = dg;
        {
            let _p = mem::pause();
            self.obs.add("unique_evals", evals.len() as u64);
            for e in evals {
                self.obs.cell(e);
            }
        }
        for (sig, d) in found {
            self.viol("C08", &sig, &d);
        }
    }

    /// C04/C02 write probe: fill the spare capacity of pool[i] (a BytesMut) through the safe
    /// `spare_capacity_mut` API, then re-check every handle and the red zones.
    pub fn write_probe(&mut self, i: usize) {
        if let Val::M(m) = &mut self.pool[i].val {
            let sp = m.spare_capacity_mut();
            let n = sp.len();
            if n > (1 << 22) {
                // an absurd capacity: do not write, the region monitor reports it
                return;
            }
            for x in sp.iter_mut() {
                x.write(0xA7);
            }
            let id = self.pool[i].id;
            self.log(format!("probe M{id} spare={n}"));
            self.count("write_probes");
            // compare all *other* handles with their models
            let before = self.obs.viols;
            self.m01_value();
            if self.obs.viols != before {
                self.viol("C04", "write-visible-elsewhere", &format!("filling the spare capacity of M{id} changed what another handle reads"));
            }
            mem::sweep(false);
            self.drain_ledger();
        }
    }
}

impl Default for Driver {
    fn default() -> Self {
        Self::new()
    }
}

pub enum Loc {
    Nothing,
    Static,
    Block(mem::Block),
    Straddle(mem::Block),
    Freed(mem::Block),
    Unknown,
}
