//! In-contract operations on a `BytesMut` / `Vec<u8>` slot.
use super::chooser::Chooser;
use super::mem;
use super::ops::*;
use super::pool::*;
use bytes::{Buf, BufMut, Bytes, BytesMut};
use std::fmt::Write as _;

const N_OPS: usize = 28;

/// size of the allocation the handle lives in, as the ledger (or H2) sees it
fn alloc_size(s: &Slot) -> usize {
    if let Some(b) = mem::find_live(s.ptr()) {
        if s.cap() > 0 {
            return b.size;
        }
    }
    s.repr().map(|r| r.buf_cap).unwrap_or(0)
}

/// is pool slot `s` (removed from the pool) the only handle on its allocation?
fn sole_on_block(d: &Driver, s: &Slot) -> bool {
    match d.storage_key(s) {
        None => false,
        Some(k) => !d.pool.iter().any(|o| !matches!(o.val, Val::V(_)) && d.storage_key(o) == Some(k)),
    }
}

fn reserve_arg(ch: &mut dyn Chooser, s: &Slot) -> (usize, &'static str) {
    let len = s.len();
    let spare = s.cap() - len;
    let alloc = alloc_size(s);
    let n = if ch.exhaustive() { 10 } else { 14 };
    match ch.choose(n) {
        // requests that are not representable: reserve must panic, try_reclaim must say false
        8 if ch.exhaustive() => (usize::MAX - len, "usize::MAX-len"),
        9 if ch.exhaustive() => (isize::MAX as usize + 1, "isize::MAX+1"),
        11 => (usize::MAX - len - ch.choose(9), "usize::MAX-len-k"),
        12 => (isize::MAX as usize + 1 + ch.choose(9), "isize::MAX+1+k"),
        13 => (usize::MAX - ch.choose(9), "usize::MAX-k"),
        0 => (0, "0"),
        1 => (spare.saturating_sub(1), "spare-1"),
        2 => (spare, "spare"),
        3 => (spare + 1, "spare+1"),
        4 => (alloc.saturating_sub(len), "alloc-len"),
        5 => (alloc.saturating_sub(len) + 1, "alloc-len+1"),
        6 => (alloc, "alloc"),
        7 => (alloc * 2 + 1, "2alloc+1"),
        8 => (1, "1"),
        9 => (ch.choose(200), "rnd"),
        _ => (1024 + ch.choose(5000), "big"),
    }
}

pub fn mut_step(d: &mut Driver, ch: &mut dyn Chooser, i: usize, full: bool) {
    let mut op = ch.choose(N_OPS);
    if full && !ch.exhaustive() && matches!(op, 0..=2 | 14 | 17) {
        op = 20 + ch.choose(6);
        if op == 25 {
            op = 27;
        }
    }
    let mut s = d.pool.swap_remove(i);
    let rname = s.rname();
    let sid = s.id;
    let len = s.model.len();
    let cap = s.cap();
    let p0 = s.ptr();
    match op {
        0 => {
            // split_off(at <= capacity)
            let (at, ca) = if ch.choose(2) == 0 { pick_idx(ch, len) } else { pick_idx(ch, cap) };
            d.log(format!("split_off M{sid} at={at} (len={len} cap={cap})"));
            let m = mref(&mut s);
            if let Some((o, ev)) = run(d, "M::split_off", || m.split_off(at)) {
                expect_no_byte_alloc(d, "M::split_off", &ev, &rname);
                let m = mref(&mut s);
                expect_ptr(d, "M::split_off", "self", m.as_ptr() as usize, p0, &rname);
                expect_ptr(d, "M::split_off", "ret", o.as_ptr() as usize, p0 + at, &rname);
                if m.capacity() != at || o.capacity() != cap - at {
                    d.viol("C04", "split_off-capacity", &format!("split_off({at}) of cap {cap}: self.cap={} ret.cap={}", m.capacity(), o.capacity()));
                }
                d.cell(format!("M|{rname}|split_off|{ca}|ok"));
                let tail = if at < len { s.model.split_off(at) } else { Vec::new() };
                d.add(Val::M(o), tail, Origin::Heap);
            }
        }
        1 => {
            let (at, ca) = pick_idx(ch, len);
            d.log(format!("split_to M{sid} at={at}"));
            let m = mref(&mut s);
            if let Some((o, ev)) = run(d, "M::split_to", || m.split_to(at)) {
                expect_no_byte_alloc(d, "M::split_to", &ev, &rname);
                let m = mref(&mut s);
                expect_ptr(d, "M::split_to", "self", m.as_ptr() as usize, p0 + at, &rname);
                expect_ptr(d, "M::split_to", "ret", o.as_ptr() as usize, p0, &rname);
                if o.capacity() != at || m.capacity() != cap - at {
                    d.viol("C04", "split_to-capacity", &format!("split_to({at}) of cap {cap}: self.cap={} ret.cap={}", m.capacity(), o.capacity()));
                }
                d.cell(format!("M|{rname}|split_to|{ca}|ok"));
                let tail = s.model.split_off(at);
                let head = std::mem::replace(&mut s.model, tail);
                d.add(Val::M(o), head, Origin::Heap);
            }
        }
        2 => {
            d.log(format!("split M{sid}"));
            let m = mref(&mut s);
            if let Some((o, ev)) = run(d, "M::split", || m.split()) {
                expect_no_byte_alloc(d, "M::split", &ev, &rname);
                let m = mref(&mut s);
                expect_ptr(d, "M::split", "self", m.as_ptr() as usize, p0 + len, &rname);
                expect_ptr(d, "M::split", "ret", o.as_ptr() as usize, p0, &rname);
                d.cell(format!("M|{rname}|split|-|ok"));
                let head = std::mem::take(&mut s.model);
                d.add(Val::M(o), head, Origin::Heap);
            }
        }
        3 => {
            let (n, ca) = pick_idx(ch, len);
            d.log(format!("truncate M{sid} {n}"));
            let m = mref(&mut s);
            if let Some((_, ev)) = run(d, "M::truncate", || m.truncate(n)) {
                expect_no_byte_alloc(d, "M::truncate", &ev, &rname);
                expect_same_region(d, "M::truncate", &s, p0, cap);
                d.cell(format!("M|{rname}|truncate|{ca}|ok"));
                s.model.truncate(n);
            }
        }
        4 => {
            d.log(format!("clear M{sid}"));
            let m = mref(&mut s);
            if let Some((_, ev)) = run(d, "M::clear", || m.clear()) {
                expect_no_byte_alloc(d, "M::clear", &ev, &rname);
                expect_same_region(d, "M::clear", &s, p0, cap);
                d.cell(format!("M|{rname}|clear|-|ok"));
                s.model.clear();
            }
        }
        5 => {
            let n = match ch.choose(if ch.exhaustive() { 4 } else { 5 }) {
                0 => 0,
                1 => len.saturating_sub(1),
                2 => len + 1,
                3 => cap + 1,
                _ => ch.choose(len + 70),
            };
            let v = (sid as u8).wrapping_mul(31) | 1;
            d.log(format!("resize M{sid} {n} val={v:#x}"));
            let m = mref(&mut s);
            if run(d, "M::resize", || m.resize(n, v)).is_some() {
                d.cell(format!("M|{rname}|resize|{}|ok", if n <= len { "shrink" } else if n <= cap { "within-cap" } else { "grow" }));
                s.model.resize(n, v);
            }
        }
        6 | 7 => {
            let (n, ca) = reserve_arg(ch, &s);
            let alloc = alloc_size(&s);
            let sole = len == 0 && (cap > 0 || alloc > 0) && sole_on_block(d, &s);
            d.log(format!("reserve M{sid} {n} (len={len} cap={cap} alloc={alloc})"));
            if n > isize::MAX as usize {
                // not representable: must panic and leave the handle alone (C04: "panics instead of returning")
                let before = (s.ptr(), s.len(), s.cap());
                let m = mref(&mut s);
                let r = crate::util::catch(|| m.reserve(n));
                d.count("reserve_unrepresentable");
                if r.is_ok() {
                    d.viol("C04", "reserve-returned-unrepresentable", &format!("reserve({n}) with len {len} returned (capacity now {}) instead of panicking ({rname})", s.cap()));
                } else if (s.ptr(), s.len(), s.cap()) != before {
                    d.viol("C04", "reserve-panic-changed-handle", &format!("reserve({n}) panicked but changed (ptr,len,cap) from {before:?} to {:?}", (s.ptr(), s.len(), s.cap())));
                }
                d.dg(r.is_ok() as u64 + 2);
                d.cell(format!("M|{rname}|reserve|{ca}|panic"));
                d.pool.push(s);
                return;
            }
            let m = mref(&mut s);
            if let Some((_, ev)) = run(d, "M::reserve", || m.reserve(n)) {
                d.count("reserve_calls");
                let m = mref(&mut s);
                if m.capacity() - m.len() < n {
                    d.viol("C04", "reserve-promise", &format!("after reserve({n}): capacity {} - len {} < {n}", m.capacity(), m.len()));
                }
                if m.len() != len {
                    d.viol("C04", "reserve-len", "reserve changed the length");
                } else if s.as_slice() != &s.model[..] {
                    let k = s.as_slice().iter().zip(s.model.iter()).position(|(a, b)| a != b).unwrap_or(0);
                    d.viol("C04", "reserve-contents", &format!("reserve({n}) changed the contents (first difference at {k} of {len}; {rname}, outcome: {})", if ev.byte_allocs > 0 { "allocated" } else if s.ptr() != p0 { "moved" } else { "in place" }));
                }
                let m = mref(&mut s);
                let outcome = if ev.byte_allocs > 0 {
                    "alloc"
                } else if m.as_ptr() as usize != p0 {
                    "shift"
                } else if m.capacity() != cap {
                    "reclaim"
                } else {
                    "fast"
                };
                if sole && n <= alloc && mem::ENABLED {
                    d.count("reclaim_probes");
                    if ev.byte_allocs != 0 {
                        d.viol("C08", "reserve-allocates-on-sole-empty", &format!("reserve({n}) on an empty handle that is alone on a {alloc}-byte allocation allocated ({rname})"));
                    } else if s.cap() - s.len() < n {
                        d.viol("C08", "reserve-reclaimed-less-than-asked", &format!("reserve({n}) on an empty handle alone on a {alloc}-byte allocation did not allocate but capacity() is only {} ({rname})", s.cap()));
                    }
                }
                d.cell(format!("M|{rname}|reserve|{ca}|{outcome}"));
            }
        }
        8 | 9 => {
            let (n, ca) = reserve_arg(ch, &s);
            let alloc = alloc_size(&s);
            let sole = len == 0 && (cap > 0 || alloc > 0) && sole_on_block(d, &s);
            d.log(format!("try_reclaim M{sid} {n} (len={len} cap={cap} alloc={alloc})"));
            let m = mref(&mut s);
            mem::reset_events();
            let r0 = crate::util::catch(|| m.try_reclaim(n));
            let ev = mem::events();
            if let Err(e) = &r0 {
                // try_reclaim accepts every n: it must answer, not panic
                d.viol("C04", "try_reclaim-panicked", &format!("try_reclaim({n}) with len {len} cap {cap} panicked: {e} ({rname})"));
            }
            if let Ok(ok) = r0 {
                d.count("try_reclaim_calls");
                d.dg(ok as u64);
                let m = mref(&mut s);
                if ok {
                    if m.capacity() - m.len() < n {
                        d.viol("C04", "try_reclaim-promise", &format!("try_reclaim({n}) returned true but capacity {} - len {} < {n}", m.capacity(), m.len()));
                    }
                    if mem::ENABLED && (ev.byte_allocs != 0 || ev.other_allocs != 0) {
                        d.viol("C04", "try_reclaim-allocates", &format!("try_reclaim({n}) returned true and allocated"));
                    }
                    if m.len() != len {
                        d.viol("C04", "try_reclaim-len", "try_reclaim changed the length");
                    } else if s.as_slice() != &s.model[..] {
                        d.viol("C04", "try_reclaim-contents", &format!("try_reclaim({n}) returned true and changed the contents ({rname})"));
                    }
                } else if m.as_ptr() as usize != p0 || m.len() != len || m.capacity() != cap {
                    d.viol("C04", "try_reclaim-false-changed", &format!("try_reclaim({n}) returned false but (ptr,len,cap) changed"));
                }
                if sole && n <= alloc {
                    d.count("reclaim_probes");
                    if !ok {
                        d.viol("C08", "try_reclaim-false-on-sole-empty", &format!("try_reclaim({n}) false on an empty handle alone on a {alloc}-byte allocation ({rname})"));
                    } else if s.cap() - s.len() < n {
                        d.viol("C08", "try_reclaim-true-without-the-capacity", &format!("try_reclaim({n}) answered true on an empty handle alone on a {alloc}-byte allocation but capacity() is {} ({rname})", s.cap()));
                    }
                }
                d.cell(format!("M|{rname}|try_reclaim|{ca}|{ok}"));
            }
        }
        10 | 11 | 12 | 13 => {
            // appends
            let n = if ch.exhaustive() { [0usize, 1, 21][ch.choose(3)] } else { pick_size(ch).min(300) };
            let nid = d.fresh_id();
            let data = gen_bytes(nid, n);
            let m = mref(&mut s);
            let name = match op {
                10 => "extend_from_slice",
                11 => "put_slice",
                12 => "put_u8s",
                _ => "extend_iter",
            };
            d.log(format!("{name} M{sid} +{n}"));
            let r = match op {
                10 => run(d, name, || m.extend_from_slice(&data)),
                11 => run(d, name, || m.put_slice(&data)),
                12 => run(d, name, || {
                    for &x in &data {
                        m.put_u8(x)
                    }
                }),
                _ => {
                    if n % 2 == 0 {
                        run(d, name, || m.extend(data.iter()))
                    } else {
                        // Extend<Bytes>: the data arrives as a few Bytes pieces
                        let k = n / 2;
                        let pieces = vec![Bytes::copy_from_slice(&data[..k]), Bytes::new(), Bytes::from(data[k..].to_vec())];
                        run(d, name, || m.extend(pieces))
                    }
                }
            };
            if r.is_some() {
                d.cell(format!("M|{rname}|{name}|{}|ok", if n <= cap - len { "fits" } else { "grows" }));
                s.model.extend_from_slice(&data);
            }
        }
        14 => {
            let cnt = if ch.exhaustive() { [0usize, 1, 40][ch.choose(3)] } else { ch.choose(100) };
            d.log(format!("put_bytes M{sid} cnt={cnt}"));
            let m = mref(&mut s);
            if run(d, "put_bytes", || m.put_bytes(0x5A, cnt)).is_some() {
                d.cell(format!("M|{rname}|put_bytes|{}|ok", if cnt <= cap - len { "fits" } else { "grows" }));
                s.model.resize(len + cnt, 0x5A);
            }
        }
        15 => {
            // put(Buf): a clone of some Bytes in the pool, or a slice of another handle
            if d.pool.is_empty() {
                d.pool.push(s);
                return;
            }
            let j = ch.choose(d.pool.len());
            let src = d.pool[j].model.clone();
            d.log(format!("put M{sid} <- {}{}", d.pool[j].tname(), d.pool[j].id));
            enum Src {
                B(Bytes),
                S(Vec<u8>),
                C(Vec<u8>),
            }
            let sb = match &d.pool[j].val {
                Val::B(b) => Src::B(b.clone()),
                Val::M(o) => Src::S(o[..].to_vec()),
                Val::V(v) => Src::C(v.clone()),
            };
            let m = mref(&mut s);
            let r = match sb {
                Src::B(c) => run(d, "put(Bytes)", move || m.put(c)),
                Src::S(sl) => run(d, "put(&[u8])", move || m.put(&sl[..])),
                #[cfg(feature = "std")]
                Src::C(sl) => run(d, "put(Cursor)", move || m.put(std::io::Cursor::new(sl))),
                #[cfg(not(feature = "std"))]
                Src::C(sl) => run(d, "put(&[u8])", move || m.put(&sl[..])),
            };
            if r.is_some() {
                d.cell(format!("M|{rname}|put_buf|-|ok"));
                s.model.extend_from_slice(&src);
            }
        }
        16 => {
            // unsplit with another BytesMut from the pool
            let ms: Vec<usize> = (0..d.pool.len()).filter(|&k| matches!(d.pool[k].val, Val::M(_))).collect();
            if ms.is_empty() {
                d.pool.push(s);
                return;
            }
            let j = ms[ch.choose(ms.len())];
            let o = d.pool.swap_remove(j);
            let adjacent = len > 0 && o.cap() > 0 && o.ptr() == p0 + len && d.storage_key(&o).is_some() && d.storage_key(&o) == d.storage_key(&s);
            let (op_ptr, o_len, o_cap) = (o.ptr(), o.len(), o.cap());
            d.log(format!("unsplit M{sid} <- M{} (adjacent={adjacent})", o.id));
            let Slot { val, model: omodel, .. } = o;
            let om = match val {
                Val::M(m) => m,
                _ => unreachable!(),
            };
            let m = mref(&mut s);
            if let Some((_, ev)) = run(d, "unsplit", move || m.unsplit(om)) {
                let m = mref(&mut s);
                if adjacent {
                    expect_no_byte_alloc(d, "unsplit_adjacent", &ev, &rname);
                    expect_ptr(d, "unsplit_adjacent", "self", m.as_ptr() as usize, p0, &rname);
                    if m.capacity() != cap + o_cap {
                        d.viol("C07", "unsplit-adjacent-capacity", &format!("unsplit of adjacent halves: capacity {} != {} + {}", m.capacity(), cap, o_cap));
                    }
                } else if len == 0 {
                    // self was empty: it becomes `other`
                    expect_no_byte_alloc(d, "unsplit_into_empty", &ev, &rname);
                    if o_len > 0 {
                        expect_ptr(d, "unsplit_into_empty", "self", m.as_ptr() as usize, op_ptr, &rname);
                    }
                }
                d.cell(format!("M|{rname}|unsplit|{}|ok", if adjacent { "adjacent" } else if len == 0 { "into-empty" } else { "copy" }));
                s.model.extend_from_slice(&omodel);
            }
        }
        17 => {
            d.log(format!("clone M{sid}"));
            let m = mref(&mut s);
            if let Some((c, _)) = run(d, "M::clone", || m.clone()) {
                d.cell(format!("M|{rname}|clone|-|ok"));
                d.add(Val::M(c), s.model.clone(), Origin::Heap);
            }
        }
        18 => {
            let (n, ca) = pick_idx(ch, len);
            d.log(format!("advance M{sid} {n}"));
            let m = mref(&mut s);
            if let Some((_, ev)) = run(d, "M::advance", || m.advance(n)) {
                expect_no_byte_alloc(d, "M::advance", &ev, &rname);
                let m = mref(&mut s);
                expect_ptr(d, "M::advance", "self", m.as_ptr() as usize, p0 + n, &rname);
                if m.capacity() != cap - n {
                    d.viol("C04", "advance-capacity", &format!("advance({n}) of cap {cap} left capacity {}", m.capacity()));
                }
                d.cell(format!("M|{rname}|advance|{ca}|ok"));
                s.model.drain(..n);
            }
        }
        19 => {
            if len > 0 {
                let pos = ch.choose(len);
                let v = !s.model[pos];
                d.log(format!("write M{sid}[{pos}]={v:#x}"));
                let m = mref(&mut s);
                let how = pos % 3;
                if run(d, "DerefMut", || match how {
                    0 => m[pos] = v,
                    1 => std::borrow::BorrowMut::<[u8]>::borrow_mut(m)[pos] = v,
                    _ => AsMut::<[u8]>::as_mut(m)[pos] = v,
                })
                .is_some()
                {
                    d.cell(format!("M|{rname}|write|-|ok"));
                    s.model[pos] = v;
                }
            } else {
                let txt = format!("w{sid}:{}", d.steps);
                d.log(format!("fmt::Write M{sid} {txt:?}"));
                let m = mref(&mut s);
                if let Some((r, _)) = run(d, "fmt::Write", || write!(m, "{}-{}", txt, 42)) {
                    if r.is_err() {
                        d.viol("C01", "fmt-write-err", "write! into BytesMut failed");
                    }
                    d.cell(format!("M|{rname}|fmt_write|-|ok"));
                    s.model.extend_from_slice(format!("{txt}-42").as_bytes());
                }
            }
        }
        20 => {
            let (n, ca) = pick_idx(ch, len);
            d.log(format!("copy_to_bytes M{sid} {n}"));
            let m = mref(&mut s);
            if let Some((c, ev)) = run(d, "M::copy_to_bytes", || m.copy_to_bytes(n)) {
                expect_no_byte_alloc(d, "M::copy_to_bytes", &ev, &rname);
                if n > 0 {
                    expect_ptr(d, "M::copy_to_bytes", "ret", c.as_ptr() as usize, p0, &rname);
                }
                d.cell(format!("M|{rname}|copy_to_bytes|{ca}|ok"));
                let tail = s.model.split_off(n);
                let head = std::mem::replace(&mut s.model, tail);
                d.add(Val::B(c), head, Origin::Heap);
            }
        }
        21 | 22 => {
            d.log(format!("freeze M{sid}"));
            let Slot { val, model, .. } = s;
            let m = match val {
                Val::M(m) => m,
                _ => unreachable!(),
            };
            if let Some((b, ev)) = run(d, "freeze", move || if op == 21 { m.freeze() } else { Bytes::from(m) }) {
                expect_no_byte_alloc(d, "freeze", &ev, &rname);
                if len > 0 {
                    expect_ptr(d, "freeze", "result", b.as_ptr() as usize, p0, &rname);
                }
                d.cell(format!("M|{rname}|freeze|{}|ok", if len == cap { "len=cap" } else { "spare" }));
                d.add(Val::B(b), model, Origin::Heap);
            }
            return;
        }
        23 => {
            d.log(format!("into Vec M{sid}"));
            let Slot { val, model, .. } = s;
            let m = match val {
                Val::M(m) => m,
                _ => unreachable!(),
            };
            if let Some((v, _)) = run(d, "M::Into<Vec>", move || Vec::<u8>::from(m)) {
                d.cell(format!("M|{rname}|into_vec|-|ok"));
                d.add(Val::V(v), model, Origin::Heap);
            }
            return;
        }
        24 => {
            d.log(format!("into_iter M{sid}"));
            let Slot { val, model, .. } = s;
            let m = match val {
                Val::M(m) => m,
                _ => unreachable!(),
            };
            if let Some((v, _)) = run(d, "M::into_iter", move || m.into_iter().collect::<Vec<u8>>()) {
                if v != model {
                    d.viol("C01", "value-into_iter", "BytesMut::into_iter yielded bytes different from the model");
                }
                d.cell(format!("M|{rname}|into_iter|-|ok"));
            }
            return;
        }
        25 => {
            // shorten, then take the length back with the unsafe set_len: the bytes are still initialised and
            // owned by the handle, so the contents must be what they were -- in every build profile (C01, C16)
            let (n, ca) = pick_idx(ch, len);
            let how = ch.choose(3);
            d.log(format!("{} M{sid} {n}; set_len({len})", ["truncate", "resize", "clear"][how]));
            let m = mref(&mut s);
            let r = run(d, "M::trunc_restore", || {
                match how {
                    0 => m.truncate(n),
                    1 => m.resize(n, 0),
                    _ => m.clear(),
                }
                // SAFETY: len <= capacity and the first `len` bytes were initialised before the call above
                unsafe { m.set_len(len) }
            });
            if r.is_some() {
                expect_same_region(d, "M::trunc_restore", &s, p0, cap);
                d.cell(format!("M|{rname}|trunc_restore|{ca}|ok"));
            }
        }
        26 => {
            // extend() with an iterator (size hint (0, None)) that panics after `k` items: whatever the crate had
            // appended by then may stay, but the handle must remain a valid buffer holding the old bytes followed by a
            // prefix of the items (all other monitors -- ledger, ranges, regions, leak balance -- run afterwards)
            let n = if ch.exhaustive() { [3usize, 40][ch.choose(2)] } else { 1 + ch.choose(120) };
            let k = if ch.exhaustive() { [0usize, 2, n - 1][ch.choose(3)] } else { ch.choose(n) };
            let nid = d.fresh_id();
            let data = gen_bytes(nid, n);
            d.log(format!("extend M{sid} with an iterator that panics after {k} of {n} items"));
            let m = mref(&mut s);
            let mut i = 0usize;
            let it = std::iter::from_fn(|| {
                if i == k {
                    panic!("iterator panics");
                }
                i += 1;
                Some(data[i - 1])
            });
            mem::reset_events();
            let r = crate::util::catch(|| m.extend(it));
            d.count("extend_panicking_iter");
            if r.is_ok() {
                d.viol("C01", "extend-swallowed-panic", "extend returned although the iterator panicked");
            }
            let now = s.as_slice().to_vec();
            let ok = now.len() >= len && now.len() <= len + k && now[..len] == s.model[..] && now[len..] == data[..now.len() - len];
            if !ok {
                d.viol("C01", "value-after-iterator-panic", &format!("after the iterator panicked at item {k} the handle holds {} bytes that are not the old {len} bytes plus a prefix of the items ({rname})", now.len()));
            } else {
                s.model = now;
            }
            d.cell(format!("M|{rname}|extend_panicking|{}|panic", if k <= cap - len { "fits" } else { "grows" }));
        }
        _ => {
            d.log(format!("drop M{sid}"));
            d.cell(format!("M|{rname}|drop|-|ok"));
            let _ = run(d, "drop", move || drop(s));
            return;
        }
    }
    d.pool.push(s);
}

fn mref(s: &mut Slot) -> &mut BytesMut {
    match &mut s.val {
        Val::M(m) => m,
        _ => unreachable!(),
    }
}

fn expect_same_region(d: &mut Driver, op: &str, s: &Slot, p0: usize, cap: usize) {
    if cap > 0 {
        expect_ptr(d, op, "self", s.ptr(), p0, "-");
    }
    if s.cap() != cap {
        d.viol("C04", &format!("{op}-capacity"), &format!("{op} changed the capacity from {cap} to {}", s.cap()));
    }
}

pub fn vec_step(d: &mut Driver, ch: &mut dyn Chooser, i: usize) {
    let s = d.pool.swap_remove(i);
    let sid = s.id;
    let Slot { val, model, .. } = s;
    let v = match val {
        Val::V(v) => v,
        _ => unreachable!(),
    };
    match ch.choose(4) {
        0 | 1 => {
            let exact = v.len() == v.capacity();
            let p = v.as_ptr() as usize;
            let n = v.len();
            d.log(format!("Vec{sid} into Bytes (exact={exact})"));
            if let Some((b, ev)) = run(d, "From<Vec>", move || Bytes::from(v)) {
                if n > 0 {
                    expect_ptr(d, "from_vec", "result", b.as_ptr() as usize, p, "Vec");
                    expect_no_byte_alloc(d, "from_vec", &ev, "Vec");
                }
                d.cell(format!("V|Vec|into_bytes|{}|ok", if exact { "exact" } else { "spare" }));
                d.add(Val::B(b), model, Origin::Heap);
            }
        }
        2 => {
            d.log(format!("BytesMut::from(&Vec{sid}[..])"));
            if let Some((m, _)) = run(d, "BytesMut::from(&[u8])", || BytesMut::from(&v[..])) {
                d.cell("V|Vec|mut_from_slice|-|ok".to_string());
                d.add(Val::M(m), model.clone(), Origin::Heap);
                d.add(Val::V(v), model, Origin::Heap);
            }
        }
        _ => {
            d.log(format!("drop Vec{sid}"));
            drop(v);
        }
    }
}
