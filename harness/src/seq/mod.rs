//! E1: op-sequence driver over Bytes / BytesMut / Vec<u8> with a value model and monitors.
pub mod chooser;
pub mod mem;
#[cfg(tokio_rs_bytes_verif)]
pub mod ops;
#[cfg(tokio_rs_bytes_verif)]
pub mod ops_b;
#[cfg(tokio_rs_bytes_verif)]
pub mod ops_m;
#[cfg(tokio_rs_bytes_verif)]
pub mod ops_ooc;
#[cfg(tokio_rs_bytes_verif)]
pub mod pool;
