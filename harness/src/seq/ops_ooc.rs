//! Out-of-contract calls (C13): must panic (or be the documented no-op) and leave every
//! handle exactly as it was.
use super::chooser::Chooser;
use super::mem;
use super::pool::*;
use bytes::{Buf, BufMut, Bytes, BytesMut};
use std::ops::Bound;

enum Out {
    Unit,
    Bool(bool),
    Handle,
    /// a Bytes that an out-of-contract call handed back: (address, length)
    Got(usize, usize),
    /// an out-of-contract call of an unsafe method returned: no verdict, the history is abandoned
    UnsafeReturned,
}

const NB: usize = 18;
const NM: usize = 17;

fn ooc_bytes(b: &mut Bytes, v: usize, k: usize) -> (Out, bool) {
    // returns (outcome, documented_noop)
    let len = b.len();
    match v {
        0 => {
            let r = b.slice(len / 2..len + 1 + k);
            (Out::Got(r.as_ptr() as usize, r.len()), false)
        }
        1 => {
            let r = b.slice(0..usize::MAX - k);
            (Out::Got(r.as_ptr() as usize, r.len()), false)
        }
        2 => {
            let a = len / 2 + 1;
            let r = b.slice(a..a - 1);
            (Out::Got(r.as_ptr() as usize, r.len()), false)
        }
        3 => {
            let r = b.slice(..=usize::MAX);
            (Out::Got(r.as_ptr() as usize, r.len()), false)
        }
        4 => {
            let _ = b.slice((Bound::Excluded(usize::MAX), Bound::Unbounded));
            (Out::Handle, false)
        }
        5 => {
            let foreign = vec![1u8, 2, 3, 4];
            let _ = b.slice_ref(&foreign[k % 3..]);
            (Out::Handle, false)
        }
        6 => {
            if len >= 2 {
                let big = b.clone();
                let mut small = b.clone();
                small.truncate(len - 1);
                let _ = small.slice_ref(&big[len - 2..]);
                (Out::Handle, false)
            } else {
                let _ = b.split_off(len + 1);
                (Out::Handle, false)
            }
        }
        7 => {
            let _ = b.split_off(len + 1 + k);
            (Out::Handle, false)
        }
        8 => {
            let _ = b.split_off(usize::MAX - k);
            (Out::Handle, false)
        }
        9 => {
            let _ = b.split_to(len + 1 + k);
            (Out::Handle, false)
        }
        10 => {
            b.advance(len + 1 + k);
            (Out::Unit, false)
        }
        11 => {
            b.advance(usize::MAX - k);
            (Out::Unit, false)
        }
        12 => {
            let _ = b.copy_to_bytes(len + 1 + k);
            (Out::Handle, false)
        }
        13 => {
            if len < 4 {
                if len == 0 {
                    let _ = b.get_u8();
                } else {
                    let _ = b.get_u32();
                }
                (Out::Unit, false)
            } else {
                let mut dst = vec![0u8; len + 1];
                b.copy_to_slice(&mut dst);
                (Out::Unit, false)
            }
        }
        14 => {
            b.truncate(len + k);
            (Out::Unit, true)
        }
        15 => {
            // an empty range that lies beyond the end is still out of range
            let _ = b.slice(len + 1 + k..len + 1 + k);
            (Out::Handle, false)
        }
        16 => {
            let _ = b.slice(len + 1 + k..=len + k);
            (Out::Handle, false)
        }
        _ => {
            let e = b.slice_ref(&[]);
            let ok = e.is_empty();
            (Out::Bool(ok), true)
        }
    }
}

fn ooc_mut(m: &mut BytesMut, v: usize, k: usize) -> (Out, bool) {
    let len = m.len();
    let cap = m.capacity();
    match v {
        0 => {
            let _ = m.split_off(cap + 1 + k);
            (Out::Handle, false)
        }
        1 => {
            let _ = m.split_off(usize::MAX - k);
            (Out::Handle, false)
        }
        2 => {
            let _ = m.split_to(len + 1 + k);
            (Out::Handle, false)
        }
        3 => {
            m.advance(len + 1 + k);
            (Out::Unit, false)
        }
        4 => {
            m.truncate(len + 1 + k);
            (Out::Unit, true)
        }
        5 => {
            m.resize(usize::MAX - k, 7);
            (Out::Unit, false)
        }
        6 => {
            m.reserve(usize::MAX);
            (Out::Unit, cap == usize::MAX)
        }
        7 => {
            m.reserve(usize::MAX - len);
            (Out::Unit, false)
        }
        8 => {
            m.reserve(usize::MAX - len - 1 - k);
            (Out::Unit, false)
        }
        9 => {
            m.reserve(isize::MAX as usize + 1 + k);
            (Out::Unit, false)
        }
        10 => {
            m.reserve(isize::MAX as usize - len + 1 + k);
            (Out::Unit, false)
        }
        11 => {
            let r = m.try_reclaim(usize::MAX - len - k);
            // documented: returns false when it cannot; true would be a lie
            (Out::Bool(!r), true)
        }
        12 => {
            m.put_bytes(0, usize::MAX - k);
            (Out::Unit, false)
        }
        13 => {
            let _ = m.copy_to_bytes(len + 1 + k);
            (Out::Handle, false)
        }
        14 => {
            if len < 8 {
                let _ = m.get_u64();
            } else {
                let mut dst = vec![0u8; len + 1];
                m.copy_to_slice(&mut dst);
            }
            (Out::Unit, false)
        }
        16 => {
            // not a safe method: the unsafe contract of advance_mut is violated on purpose. The crate's
            // implementation answers with a deterministic panic; no monitor demands that, but whether it
            // panics enters the digest that C16 compares across build profiles.
            if len == 0 {
                panic!("(skipped: needs a non-empty buffer)");
            }
            unsafe { bytes::BufMut::advance_mut(m, usize::MAX - k.min(len - 1)) };
            (Out::UnsafeReturned, true)
        }
        _ => {
            let _ = m.split_to(usize::MAX - k);
            (Out::Handle, false)
        }
    }
}

pub fn ooc_step(d: &mut Driver, ch: &mut dyn Chooser, i: usize) {
    let is_b = match d.pool[i].val {
        Val::B(_) => true,
        Val::M(_) => false,
        Val::V(_) => return,
    };
    let v = ch.choose(if is_b { NB } else { NM });
    let k = if ch.exhaustive() { 0 } else { ch.choose(9) };
    let rname = d.pool[i].rname();
    let id = d.pool[i].id;
    let (len, cap) = (d.pool[i].len(), d.pool[i].cap());
    d.log(format!("OOC {}{} variant={v} k={k} (len={len} cap={cap})", if is_b { "B" } else { "M" }, id));
    let snap = d.snapshot();
    mem::reset_events();
    let r = {
        let slot = &mut d.pool[i];
        crate::util::catch(|| match &mut slot.val {
            Val::B(b) => ooc_bytes(b, v, k),
            Val::M(m) => ooc_mut(m, v, k),
            Val::V(_) => (Out::Unit, true),
        })
    };
    d.count("ooc_calls");
    let name = format!("{}ooc{v}", if is_b { "B" } else { "M" });
    let outcome;
    let mut unsafe_returned = false;
    match r {
        Err(_) => {
            outcome = "panic";
            d.count("ooc_panics");
        }
        Ok((out, noop)) => {
            outcome = "returned";
            if matches!(out, Out::UnsafeReturned) {
                unsafe_returned = true;
            }
            if !noop {
                d.viol("C13", &format!("{name}-returned"), &format!("out-of-contract call {name} (k={k}, len={len}, cap={cap}, repr {rname}) returned normally instead of panicking"));
            } else if let Out::Bool(false) = out {
                d.viol("C13", &format!("{name}-wrong-result"), &format!("documented no-op {name} returned a wrong result"));
            }
            if let Out::Got(p, l) = out {
                // the call handed back a view: it must at least lie inside live memory (C02)
                if l > 0 && !in_static(p, l) {
                    let ok = match mem::find_live(p) {
                        Some(b) => p.checked_add(l).map(|e| e <= b.user + b.size).unwrap_or(false),
                        None => !mem::ENABLED,
                    };
                    if !ok {
                        d.viol("C02", &format!("{name}-result-outside-allocation"), &format!("out-of-contract call {name} returned a view [{p:#x},+{l}) that is not inside a live allocation"));
                    }
                }
            }
            let _ = matches!(out, Out::Handle | Out::Unit);
        }
    }
    d.dg(v as u64 * 2 + (outcome == "panic") as u64);
    d.cell(format!("OOC|{rname}|{name}|{outcome}"));
    if unsafe_returned {
        // the handle's length can no longer be trusted: abandon the history without a verdict
        d.failed = true;
        return;
    }
    // whatever happened, nothing may have changed
    let after = d.snapshot();
    d.count("ooc_snapshots");
    if after.len() != snap.len() {
        d.viol("C13", &format!("{name}-pool"), "pool size changed");
        return;
    }
    for (j, (a, b)) in snap.iter().zip(after.iter()).enumerate() {
        if a != b {
            let what = if a.h != b.h || a.len != b.len {
                "contents"
            } else if a.cap != b.cap {
                "capacity"
            } else {
                "address"
            };
            let s = &d.pool[j];
            let msg = format!("after {name} (k={k}, {outcome}) on {}{} [{rname}]: {}{} changed {what}: before {:?} after {:?}", if is_b { "B" } else { "M" }, id, s.tname(), s.id, a, b);
            d.viol("C13", &format!("{name}-changed-{what}"), &msg);
            return;
        }
    }
}
