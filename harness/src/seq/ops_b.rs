//! In-contract operations on a `Bytes` handle.
use super::chooser::Chooser;
use super::ops::*;
use super::pool::*;
use bytes::verif::Kind;
use bytes::{Buf, Bytes, BytesMut};
use std::ops::Bound;

const N_OPS: usize = 17;

fn origin_of_result(src: Origin, r: &Bytes) -> Origin {
    // an empty result with the static vtable holds nothing of its source
    if r.is_empty() && r.__verif_repr().kind == Kind::Static {
        match src {
            Origin::Owner(_) => Origin::Static,
            o => o,
        }
    } else {
        src
    }
}

/// An empty `Bytes` that was the sole holder of allocation `key0` has been converted into `m`: `m` must sit on that
/// allocation (its buffer, as H2 reports it, is a live block with the same ledger identity).
fn empty_conversion_keeps_storage(d: &mut Driver, op: &str, key0: Option<u64>, m: &BytesMut, rname: &str) {
    let Some(k) = key0 else { return };
    let r = m.__verif_repr();
    d.count("empty_unique_conversions");
    let now = if r.buf_cap == 0 {
        None
    } else if super::mem::ENABLED {
        super::mem::find_live(r.buf_start).map(|b| b.seq)
    } else {
        Some(r.buf_start as u64)
    };
    if now != Some(k) {
        d.viol("C08", &format!("{op}-empty-lost-allocation"), &format!("{op} of an empty, uniquely held Bytes ({rname}) returned a BytesMut that is not on the allocation the Bytes held (buffer {:#x}+{}, capacity {})", r.buf_start, r.buf_cap, m.capacity()));
    }
}

pub fn bytes_step(d: &mut Driver, ch: &mut dyn Chooser, i: usize, full: bool) {
    let mut op = ch.choose(N_OPS);
    if full && !ch.exhaustive() && matches!(op, 0..=5 | 9) {
        op = 12 + ch.choose(5); // consuming ops when the pool is full
    }
    // the harness's own answer to "is this handle the only one on its storage" (three-valued)
    let must_unique = d.unique_expect(i) == Some(true);
    let mut s = d.pool.swap_remove(i);
    let rname = s.rname();
    let sid = s.id;
    let len = s.model.len();
    let p0 = s.ptr();
    // the storage an *empty* handle still holds (None for detached empties): a sole owner converting it into a
    // BytesMut must get that allocation back, not a fresh empty buffer (C08: "returns the same memory")
    let key0 = if len == 0 && s.origin == Origin::Heap { d.storage_key(&s) } else { None };
    let b: &mut Bytes = match &mut s.val {
        Val::B(b) => b,
        _ => unreachable!(),
    };
    match op {
        0 => {
            d.log(format!("clone B{sid}"));
            if let Some((c, ev)) = run(d, "clone", || b.clone()) {
                expect_no_byte_alloc(d, "clone", &ev, &rname);
                if len > 0 {
                    expect_ptr(d, "clone", "result", c.as_ptr() as usize, p0, &rname);
                    expect_ptr(d, "clone", "self", b.as_ptr() as usize, p0, &rname);
                }
                d.cell(format!("B|{rname}|clone|-|ok"));
                let o = origin_of_result(s.origin, &c);
                d.add(Val::B(c), s.model.clone(), o);
            }
        }
        1 | 2 => {
            // slice with every RangeBounds form
            let (a, ca) = pick_idx(ch, len);
            let (e0, cb) = pick_idx(ch, len);
            let (a, e) = if a <= e0 { (a, e0) } else { (e0, a) };
            let form = if ch.exhaustive() { (a * 7 + e + op) % 6 } else { ch.choose(6) };
            d.log(format!("slice B{sid} {a}..{e} form{form}"));
            let r = run(d, "slice", || match form {
                0 => b.slice(a..e),
                1 if e > 0 && e > a => b.slice(a..=e - 1),
                2 if e == len => b.slice(a..),
                3 if a == 0 => b.slice(..e),
                4 if a == 0 && e == len => b.slice(..),
                5 if a > 0 => b.slice((Bound::Excluded(a - 1), Bound::Excluded(e))),
                _ => b.slice(a..e),
            });
            if let Some((c, ev)) = r {
                expect_no_byte_alloc(d, "slice", &ev, &rname);
                if e > a {
                    expect_ptr(d, "slice", "result", c.as_ptr() as usize, p0 + a, &rname);
                }
                d.cell(format!("B|{rname}|slice|{ca},{cb}|{}", if e > a { "nonempty" } else { "empty" }));
                let o = origin_of_result(s.origin, &c);
                d.add(Val::B(c), s.model[a..e].to_vec(), o);
            }
        }
        3 => {
            let (a, ca) = pick_idx(ch, len);
            let (e0, _) = pick_idx(ch, len);
            let (a, e) = if a <= e0 { (a, e0) } else { (e0, a) };
            // the sub-slice may come from this handle or from another handle on the same bytes
            let sibling: Option<Bytes> = if e > a && ch.choose(2) == 0 {
                d.pool.iter().find_map(|o| match &o.val {
                    Val::B(ob) if !ob.is_empty() && ob.as_ptr() as usize <= p0 + a && ob.as_ptr() as usize + ob.len() >= p0 + e => Some(ob.clone()),
                    _ => None,
                })
            } else {
                None
            };
            d.log(format!("slice_ref B{sid} {a}..{e}{}", if sibling.is_some() { " (sub-slice taken from a sibling handle)" } else { "" }));
            let r = run(d, "slice_ref", || match &sibling {
                Some(sb) => {
                    let so = p0 + a - sb.as_ptr() as usize;
                    b.slice_ref(&sb[so..so + (e - a)])
                }
                None => {
                    let sub = &b[a..e];
                    b.slice_ref(sub)
                }
            });
            drop(sibling);
            if let Some((c, ev)) = r {
                expect_no_byte_alloc(d, "slice_ref", &ev, &rname);
                if e > a {
                    expect_ptr(d, "slice_ref", "result", c.as_ptr() as usize, p0 + a, &rname);
                }
                d.cell(format!("B|{rname}|slice_ref|{ca}|{}", if e > a { "nonempty" } else { "empty" }));
                let o = origin_of_result(s.origin, &c);
                d.add(Val::B(c), s.model[a..e].to_vec(), o);
            }
        }
        4 => {
            let (at, ca) = pick_idx(ch, len);
            d.log(format!("split_off B{sid} at={at}"));
            if let Some((c, ev)) = run(d, "split_off", || b.split_off(at)) {
                expect_no_byte_alloc(d, "split_off", &ev, &rname);
                // address guarantee also for empty parts
                expect_ptr(d, "split_off", "self", b.as_ptr() as usize, p0, &rname);
                expect_ptr(d, "split_off", "ret", c.as_ptr() as usize, p0 + at, &rname);
                d.cell(format!("B|{rname}|split_off|{ca}|ok"));
                let tail = s.model.split_off(at);
                let o = origin_of_result(s.origin, &c);
                d.add(Val::B(c), tail, o);
                s.origin = origin_of_result(s.origin, b);
            }
        }
        5 => {
            let (at, ca) = pick_idx(ch, len);
            d.log(format!("split_to B{sid} at={at}"));
            if let Some((c, ev)) = run(d, "split_to", || b.split_to(at)) {
                expect_no_byte_alloc(d, "split_to", &ev, &rname);
                expect_ptr(d, "split_to", "self", b.as_ptr() as usize, p0 + at, &rname);
                expect_ptr(d, "split_to", "ret", c.as_ptr() as usize, p0, &rname);
                d.cell(format!("B|{rname}|split_to|{ca}|ok"));
                let tail = s.model.split_off(at);
                let head = std::mem::replace(&mut s.model, tail);
                let o = origin_of_result(s.origin, &c);
                d.add(Val::B(c), head, o);
                s.origin = origin_of_result(s.origin, b);
            }
        }
        6 => {
            let (n, ca) = pick_idx(ch, len);
            d.log(format!("truncate B{sid} {n}"));
            if let Some((_, ev)) = run(d, "truncate", || b.truncate(n)) {
                expect_no_byte_alloc(d, "truncate", &ev, &rname);
                if n > 0 {
                    expect_ptr(d, "truncate", "self", b.as_ptr() as usize, p0, &rname);
                }
                d.cell(format!("B|{rname}|truncate|{ca}|ok"));
                s.model.truncate(n);
            }
        }
        7 => {
            d.log(format!("clear B{sid}"));
            if let Some((_, ev)) = run(d, "clear", || b.clear()) {
                expect_no_byte_alloc(d, "clear", &ev, &rname);
                d.cell(format!("B|{rname}|clear|-|ok"));
                s.model.clear();
            }
        }
        8 => {
            let (n, ca) = pick_idx(ch, len);
            d.log(format!("advance B{sid} {n}"));
            if let Some((_, ev)) = run(d, "advance", || b.advance(n)) {
                expect_no_byte_alloc(d, "advance", &ev, &rname);
                if n < len {
                    expect_ptr(d, "advance", "self", b.as_ptr() as usize, p0 + n, &rname);
                }
                d.cell(format!("B|{rname}|advance|{ca}|ok"));
                s.model.drain(..n);
            }
        }
        9 => {
            let (n, ca) = pick_idx(ch, len);
            d.log(format!("copy_to_bytes B{sid} {n}"));
            if let Some((c, _)) = run(d, "copy_to_bytes", || b.copy_to_bytes(n)) {
                d.cell(format!("B|{rname}|copy_to_bytes|{ca}|ok"));
                let tail = s.model.split_off(n);
                let head = std::mem::replace(&mut s.model, tail);
                let o = origin_of_result(s.origin, &c);
                d.add(Val::B(c), head, o);
                s.origin = origin_of_result(s.origin, b);
            }
        }
        10 => {
            if len >= 2 && ch.choose(2) == 0 {
                d.log(format!("get_u16 B{sid}"));
                if let Some((v, _)) = run(d, "get_u16", || b.get_u16()) {
                    let want = u16::from_be_bytes([s.model[0], s.model[1]]);
                    if v != want {
                        d.viol("C01", "value-get_u16", &format!("get_u16 returned {v:#x}, model {want:#x}"));
                    }
                    d.dg(v as u64);
                    s.model.drain(..2);
                }
            } else if len >= 1 {
                d.log(format!("get_u8 B{sid}"));
                if let Some((v, _)) = run(d, "get_u8", || b.get_u8()) {
                    if v != s.model[0] {
                        d.viol("C01", "value-get_u8", &format!("get_u8 returned {v:#x}, model {:#x}", s.model[0]));
                    }
                    d.dg(v as u64);
                    s.model.drain(..1);
                }
            }
            d.cell(format!("B|{rname}|get|-|ok"));
        }
        11 => {
            // is_unique + try_into_mut consistency (C08) with address guarantee
            d.log(format!("try_into_mut B{sid}"));
            let Slot { val, model, origin, id } = s;
            let b = match val {
                Val::B(b) => b,
                _ => unreachable!(),
            };
            let uniq = b.is_unique();
            if let Some((r, ev)) = run(d, "try_into_mut", move || b.try_into_mut()) {
                d.count("try_into_mut_calls");
                match r {
                    Ok(m) => {
                        if !uniq {
                            d.viol("C08", "try_into_mut-ok-not-unique", "try_into_mut succeeded although is_unique() was false");
                        }
                        if len > 0 {
                            if m.as_ptr() as usize != p0 {
                                d.viol("C08", "try_into_mut-moved", &format!("try_into_mut returned different memory ({:#x} vs {:#x}, repr {rname})", m.as_ptr() as usize, p0));
                            }
                            expect_ptr(d, "try_into_mut", "result", m.as_ptr() as usize, p0, &rname);
                        }
                        expect_no_byte_alloc(d, "try_into_mut", &ev, &rname);
                        d.cell(format!("B|{rname}|try_into_mut|-|ok"));
                        empty_conversion_keeps_storage(d, "try_into_mut", key0, &m, &rname);
                        d.add(Val::M(m), model, Origin::Heap);
                    }
                    Err(b) => {
                        if uniq {
                            d.viol("C08", "try_into_mut-err-unique", "try_into_mut failed although is_unique() was true");
                        }
                        d.cell(format!("B|{rname}|try_into_mut|-|err"));
                        d.pool.push(Slot { val: Val::B(b), model, origin, id });
                    }
                }
            }
            return;
        }
        12 => {
            d.log(format!("into BytesMut B{sid}"));
            let Slot { val, model, origin, .. } = s;
            let b = match val {
                Val::B(b) => b,
                _ => unreachable!(),
            };
            let uniq = b.is_unique();
            let owner_backed = matches!(origin, Origin::Owner(_));
            if let Some((m, ev)) = run(d, "Into<BytesMut>", move || BytesMut::from(b)) {
                // conversion of a uniquely held buffer is zero-copy; "uniquely held" is decided by the
                // harness (pool + ledger), not by the crate's own is_unique()
                if must_unique || uniq {
                    if len > 0 {
                        expect_ptr(d, "into_mut_unique", "result", m.as_ptr() as usize, p0, &rname);
                    }
                    expect_no_byte_alloc(d, "into_mut_unique", &ev, &rname);
                    empty_conversion_keeps_storage(d, "into_mut_unique", key0, &m, &rname);
                }
                if owner_backed && m[..] != model[..] {
                    d.viol("C03", "owner-released-before-copy", &format!("BytesMut::from(owner-backed Bytes) returned bytes that differ from the view ({rname}): the owner's memory was released before it was copied"));
                }
                d.cell(format!("B|{rname}|into_mut|-|{}", if uniq { "unique" } else { "copy" }));
                d.add(Val::M(m), model, Origin::Heap);
            }
            return;
        }
        13 => {
            d.log(format!("into Vec B{sid}"));
            let s_origin = s.origin;
            let Slot { val, model, .. } = s;
            let b = match val {
                Val::B(b) => b,
                _ => unreachable!(),
            };
            let owner_backed = matches!(s_origin, Origin::Owner(_));
            if let Some((v, _)) = run(d, "Into<Vec>", move || Vec::<u8>::from(b)) {
                if owner_backed && v != model {
                    d.viol("C03", "owner-released-before-copy", &format!("Vec::from(owner-backed Bytes) returned bytes that differ from the view ({rname}): the owner's memory was released before it was copied"));
                }
                d.cell(format!("B|{rname}|into_vec|-|ok"));
                d.add(Val::V(v), model, Origin::Heap);
            }
            return;
        }
        14 => {
            d.log(format!("into_iter B{sid}"));
            let Slot { val, model, .. } = s;
            let b = match val {
                Val::B(b) => b,
                _ => unreachable!(),
            };
            if let Some((v, _)) = run(d, "into_iter", move || {
                let it = b.into_iter();
                let hint = it.size_hint();
                (it.collect::<Vec<u8>>(), hint)
            }) {
                if v.0 != model || v.1 != (model.len(), Some(model.len())) {
                    d.viol("C01", "value-into_iter", "into_iter yielded bytes / size_hint different from the model");
                }
                d.cell(format!("B|{rname}|into_iter|-|ok"));
            }
            return;
        }
        _ => {
            d.log(format!("drop B{sid}"));
            d.cell(format!("B|{rname}|drop|-|ok"));
            let _ = run(d, "drop", move || drop(s));
            return;
        }
    }
    d.pool.push(s);
}
