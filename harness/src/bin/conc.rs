//! E2: small multi-threaded programs over shared Bytes / BytesMut storage (C05, C06).
//!
//! conc stress --seed S --shard I --nshards N --progs P --reps R      native threads (+ledger, or TSan build)
//! conc miri   --seed S --shard I --nshards N --progs P                one execution per program (use -Zmiri-many-seeds)
//!
//! The harness adds no synchronisation between the worker threads other than spawn / barrier at the
//! start / join; the hook log uses Relaxed atomics only.
use bytes::{Buf, BufMut, Bytes, BytesMut};
use std::collections::HashSet;
use std::sync::atomic::{AtomicU32, AtomicUsize, Ordering::Relaxed};
use std::sync::Barrier;
use vharness::out::Obs;
use vharness::rng::{fnv_u64, mix2, Rng};
use vharness::util::{self, Args};

const LEN: usize = 32;
const CAP: usize = 64;

fn data() -> Vec<u8> {
    (0..LEN).map(|i| (i as u8).wrapping_mul(7).wrapping_add(3)).collect()
}

#[derive(Clone, Copy, Debug, PartialEq, Eq)]
enum Op {
    CloneRef,
    CloneOwn,
    Read,
    Slice,
    Drop,
    TryIntoMut,
    IntoVec,
    IntoMut,
    Truncate,
    Advance,
    Reserve,
    TryReclaim,
    FreezeRead,
    MutIntoVec,
    /// BytesMut: split the handle in two inside the thread (reference-count increment racing the siblings' drops)
    MutSplit,
    /// Bytes: is_unique() where the answer is known (the thread itself holds a second handle / owner-backed)
    IsUnique,
    /// is_unique() asked through the lent `&Bytes` while other threads clone through it (the answer is racy by
    /// documentation and not constrained; the call itself must not race with the promotion)
    IsUniqueRef,
}
const B_OPS: [Op; 12] = [Op::CloneRef, Op::CloneOwn, Op::Read, Op::Slice, Op::Drop, Op::TryIntoMut, Op::IntoVec, Op::IntoMut, Op::Truncate, Op::Advance, Op::IsUnique, Op::IsUniqueRef];
const M_OPS: [Op; 7] = [Op::Reserve, Op::TryReclaim, Op::FreezeRead, Op::MutIntoVec, Op::Drop, Op::Read, Op::MutSplit];

#[derive(Clone, Debug)]
struct Prog {
    setup: u8,
    with_ref: bool,
    front_off: usize,
    threads: Vec<Vec<Op>>,
}
const N_SETUPS: u8 = 7;
const SETUP_NAMES: [&str; 7] = ["promotable-unpromoted-via-ref", "promotable-promoted", "shared-vec", "frozen-bytesmut", "owner-drop-writes", "bytesmut-halves", "frozen-head+mut-tail"];

enum H {
    /// handle, offset into the original data, zero-copy (address must be base+off)
    B(Bytes, usize, bool),
    /// handle, model of its contents
    M(BytesMut, Vec<u8>),
    V(Vec<u8>, Vec<u8>),
}

struct OwnerBuf {
    buf: Vec<u8>,
}
impl AsRef<[u8]> for OwnerBuf {
    fn as_ref(&self) -> &[u8] {
        &self.buf
    }
}
impl Drop for OwnerBuf {
    fn drop(&mut self) {
        // writes to the buffer: must happen-after every read through a view
        for b in self.buf.iter_mut() {
            *b = 0;
        }
    }
}

// ------------------------------------------------------------------ hook: log + delays

const LOGCAP: usize = 2048;
static LOG: [AtomicU32; LOGCAP] = [const { AtomicU32::new(0) }; LOGCAP];
static LOGN: AtomicUsize = AtomicUsize::new(0);
static DELAY_MODE: AtomicU32 = AtomicU32::new(0); // 0 none, 1 native spins/yields, 2 miri yields
static POINT_HITS: [AtomicU32; 40] = [const { AtomicU32::new(0) }; 40];
// directed mode (DELAY_MODE 3): thread HOLD_T stalls at its HOLD_K-th hook event until every other worker has finished
// its operations (bounded), i.e. one chosen preemption per execution, enumerated over all (thread, event) placements
static HOLD_T: AtomicU32 = AtomicU32::new(0);
static HOLD_K: AtomicU32 = AtomicU32::new(0);
static WORKERS: AtomicU32 = AtomicU32::new(0);
static DONE_CNT: AtomicU32 = AtomicU32::new(0);
static HELD: AtomicU32 = AtomicU32::new(0);
static HOLD_TIMEOUTS: AtomicU32 = AtomicU32::new(0);

thread_local! {
    static TIDX: std::cell::Cell<u32> = const { std::cell::Cell::new(0) };
    static TRNG: std::cell::Cell<u64> = const { std::cell::Cell::new(0) };
    static EVK: std::cell::Cell<u32> = const { std::cell::Cell::new(0) };
}

fn trand() -> u64 {
    TRNG.with(|r| {
        let mut x = r.get();
        let v = vharness::rng::splitmix(&mut x);
        r.set(x);
        v
    })
}

#[allow(dead_code)]
fn hook(point: u32) {
    let t = TIDX.with(|t| t.get());
    let i = LOGN.fetch_add(1, Relaxed);
    if i < LOGCAP {
        LOG[i].store((t << 8) | point, Relaxed);
    }
    if (point as usize) < 40 {
        POINT_HITS[point as usize].fetch_add(1, Relaxed);
    }
    match DELAY_MODE.load(Relaxed) {
        3 => {
            let k = EVK.with(|e| {
                let v = e.get();
                e.set(v + 1);
                v
            });
            if t != 0 && t == HOLD_T.load(Relaxed) && k == HOLD_K.load(Relaxed) {
                HELD.fetch_add(1, Relaxed);
                let others = WORKERS.load(Relaxed).saturating_sub(1);
                let mut spins = 0u32;
                while DONE_CNT.load(Relaxed) < others {
                    spins += 1;
                    if spins % 64 == 0 {
                        std::thread::yield_now();
                    }
                    if spins > 2_000_000 {
                        HOLD_TIMEOUTS.fetch_add(1, Relaxed);
                        break;
                    }
                    std::hint::spin_loop();
                }
            }
        }
        1 => {
            let r = trand();
            // widen the promotion-race window: after the tagged load / before the CAS
            if (point == 1 || point == 14) && r % 2 == 0 {
                if r % 4 == 0 {
                    std::thread::yield_now();
                } else {
                    for _ in 0..(r >> 8) % 20000 {
                        std::hint::spin_loop();
                    }
                }
                return;
            }
            match r % 8 {
                0 => std::thread::yield_now(),
                1 | 2 => {
                    for _ in 0..(r >> 8) % 3000 {
                        std::hint::spin_loop();
                    }
                }
                3 => {
                    for _ in 0..(r >> 8) % 200 {
                        std::hint::spin_loop();
                    }
                }
                _ => {}
            }
        }
        2 => {
            if trand() % 3 == 0 {
                std::thread::yield_now();
            }
        }
        _ => {}
    }
}

fn install_hook() -> bool {
    #[cfg(tokio_rs_bytes_verif)]
    {
        bytes::verif::set_point_hook(Some(hook));
        true
    }
    #[cfg(not(tokio_rs_bytes_verif))]
    {
        false
    }
}

// ------------------------------------------------------------------ one execution

#[derive(Default)]
struct ThreadOut {
    errs: Vec<String>,
    kept: Vec<H>,
    zero_copy_wins: Vec<(usize, usize)>, // (address, len) of exclusive zero-copy results
    copies: u32,
    reads: u32,
}

struct Shared {
    base: usize, // address of the original buffer
    data: Vec<u8>,
    owner: bool, // owner-backed (from_owner) storage
}

fn check_b(b: &Bytes, off: usize, zc: bool, sh: &Shared, errs: &mut Vec<String>, what: &str) {
    let want = &sh.data[off..off + b.len()];
    if &b[..] != want {
        errs.push(format!("{what}: read {:?}, expected {:?}", &b[..b.len().min(8)], &want[..want.len().min(8)]));
    }
    if zc && !b.is_empty() && b.as_ptr() as usize != sh.base + off {
        errs.push(format!("{what}: address {:#x}, expected original+{off} = {:#x}", b.as_ptr() as usize, sh.base + off));
    }
}

fn run_thread(tid: u32, ops: &[Op], mut own: Vec<H>, shared_ref: Option<&Bytes>, sh: &Shared, seed: u64, _tag: u32) -> ThreadOut {
    #[cfg(feature = "ledger")]
    let _scope = vharness::ledger::Scope::new(_tag);
    TIDX.with(|t| t.set(tid));
    TRNG.with(|r| r.set(mix2(seed, tid as u64 + 1)));
    EVK.with(|e| e.set(0));
    let mut out = ThreadOut::default();
    // random initial skew
    if DELAY_MODE.load(Relaxed) == 1 {
        for _ in 0..trand() % 2000 {
            std::hint::spin_loop();
        }
    }
    for &op in ops {
        // the handle the op works on: the last own handle
        match op {
            Op::CloneRef => {
                if let Some(s) = shared_ref {
                    let c: Bytes = s.clone();
                    check_b(&c, 0, true, sh, &mut out.errs, "clone via &Bytes");
                    own.push(H::B(c, 0, true));
                }
            }
            Op::CloneOwn => {
                if let Some(H::B(b, off, zc)) = own.last() {
                    let c = b.clone();
                    let (off, zc) = (*off, *zc);
                    check_b(&c, off, zc, sh, &mut out.errs, "clone");
                    own.push(H::B(c, off, zc));
                }
            }
            Op::Read => {
                for h in &own {
                    match h {
                        H::B(b, off, zc) => {
                            check_b(b, *off, *zc, sh, &mut out.errs, "read");
                            out.reads += 1;
                        }
                        H::M(m, model) => {
                            if &m[..] != &model[..] {
                                out.errs.push(format!("BytesMut read {:?}, expected {:?}", &m[..m.len().min(8)], &model[..model.len().min(8)]));
                            }
                            out.reads += 1;
                        }
                        H::V(v, model) => {
                            if v != model {
                                out.errs.push("Vec contents differ from model".into());
                            }
                        }
                    }
                }
            }
            Op::Slice => {
                if let Some(H::B(b, off, zc)) = own.last() {
                    if b.len() >= 4 {
                        let c = b.slice(1..b.len() - 1);
                        let (off, zc) = (*off + 1, *zc);
                        check_b(&c, off, zc, sh, &mut out.errs, "slice");
                        own.push(H::B(c, off, zc));
                    }
                }
            }
            Op::Drop => {
                if let Some(h) = own.pop() {
                    if let H::B(b, off, zc) = &h {
                        check_b(b, *off, *zc, sh, &mut out.errs, "read-before-drop");
                        out.reads += 1;
                    }
                    drop(h);
                }
            }
            Op::Truncate => {
                if let Some(H::B(b, _, _)) = own.last_mut() {
                    let n = b.len() / 2;
                    b.truncate(n);
                }
            }
            Op::Advance => {
                if let Some(H::B(b, off, _)) = own.last_mut() {
                    if b.len() >= 2 {
                        b.advance(2);
                        *off += 2;
                    }
                }
            }
            Op::TryIntoMut | Op::IntoMut | Op::IntoVec => {
                if let Some(H::B(..)) = own.last() {
                    if let Some(H::B(b, off, zc)) = own.pop() {
                        check_b(&b, off, zc, sh, &mut out.errs, "read-before-convert");
                        let len = b.len();
                        let want = sh.data[off..off + len].to_vec();
                        let marker = 0xA0 | tid as u8;
                        match op {
                            Op::IntoVec => {
                                let mut v: Vec<u8> = b.into();
                                if v != want {
                                    out.errs.push(format!("into Vec gave {:?}, expected {:?}", &v[..v.len().min(8)], &want[..want.len().min(8)]));
                                }
                                let p = v.as_ptr() as usize;
                                // zero-copy iff the Vec is the original buffer (contents are moved to its front)
                                if len > 0 && zc && p == sh.base {
                                    out.zero_copy_wins.push((p, v.capacity()));
                                } else {
                                    out.copies += 1;
                                }
                                for x in v.iter_mut() {
                                    *x = marker;
                                }
                                let model = vec![marker; len];
                                out.kept.push(H::V(v, model));
                            }
                            _ => {
                                let r = if op == Op::TryIntoMut { b.try_into_mut() } else { Ok(BytesMut::from(b)) };
                                match r {
                                    Ok(mut m) => {
                                        if m[..] != want[..] {
                                            out.errs.push(format!("into BytesMut gave {:?}, expected {:?}", &m[..m.len().min(8)], &want[..want.len().min(8)]));
                                        }
                                        let p = m.as_ptr() as usize;
                                        let won = len > 0 && zc && p == sh.base + off;
                                        if op == Op::TryIntoMut && len > 0 && zc && !won {
                                            out.errs.push("try_into_mut succeeded but returned different memory".into());
                                        }
                                        if won {
                                            out.zero_copy_wins.push((p, m.capacity()));
                                        } else {
                                            out.copies += 1;
                                        }
                                        // exclusive owner: write over everything it may write
                                        for x in m.iter_mut() {
                                            *x = marker;
                                        }
                                        let spare = (m.capacity() - m.len()).min(256);
                                        m.put_bytes(marker, spare);
                                        let model = vec![marker; len + spare];
                                        out.kept.push(H::M(m, model));
                                    }
                                    Err(b) => {
                                        check_b(&b, off, zc, sh, &mut out.errs, "try_into_mut Err");
                                        own.push(H::B(b, off, zc));
                                    }
                                }
                            }
                        }
                    }
                }
            }
            Op::Reserve | Op::TryReclaim => {
                if let Some(H::M(m, model)) = own.last_mut() {
                    let before = (m.as_ptr() as usize, m.capacity());
                    let n = CAP / 2 + (tid as usize % 2) * 8;
                    let ok = if op == Op::Reserve {
                        m.reserve(n);
                        true
                    } else {
                        m.try_reclaim(n)
                    };
                    if &m[..] != &model[..] {
                        out.errs.push("reserve/try_reclaim changed the contents".into());
                    }
                    if ok {
                        if m.capacity() - m.len() < n {
                            out.errs.push("reserve/try_reclaim did not provide the capacity".into());
                        }
                        // write into everything we now own
                        let marker = 0xB0 | tid as u8;
                        let spare = (m.capacity() - m.len()).min(256);
                        m.put_bytes(marker, spare);
                        model.extend(std::iter::repeat(marker).take(spare));
                        let p = m.as_ptr() as usize;
                        if p >= sh.base && p < sh.base + CAP && (p, m.capacity()) != before {
                            out.zero_copy_wins.push((p, m.capacity()));
                        }
                    } else if (m.as_ptr() as usize, m.capacity()) != before {
                        out.errs.push("try_reclaim returned false but changed the handle".into());
                    }
                }
            }
            Op::FreezeRead => {
                if let Some(H::M(..)) = own.last() {
                    if let Some(H::M(m, model)) = own.pop() {
                        let b = m.freeze();
                        if b[..] != model[..] {
                            out.errs.push("freeze changed the contents".into());
                        }
                        let c = b.clone();
                        drop(b);
                        out.kept.push(H::V(c.to_vec(), model));
                        drop(c);
                    }
                }
            }
            Op::MutSplit => {
                if let Some(H::M(m, model)) = own.last_mut() {
                    let at = m.len() / 2;
                    let p0 = m.as_ptr() as usize;
                    let tail = m.split_off(at);
                    let tmodel = model.split_off(at);
                    if m[..] != model[..] || tail[..] != tmodel[..] {
                        out.errs.push("split_off changed the contents".into());
                    }
                    if m.as_ptr() as usize != p0 || (tail.capacity() > 0 && tail.as_ptr() as usize != p0 + at) {
                        out.errs.push(format!("split_off moved a half: address {:#x}/{:#x}, expected {:#x}/{:#x}", m.as_ptr() as usize, tail.as_ptr() as usize, p0, p0 + at));
                    }
                    own.push(H::M(tail, tmodel));
                }
            }
            Op::IsUnique => {
                // is_unique() may be asked at any time; its answer is only constrained where this thread knows it:
                // a second handle of its own on the same storage, or owner-backed data, make it false
                let nb = own.iter().filter(|h| matches!(h, H::B(b, _, true) if !b.is_empty())).count();
                if let Some(H::B(b, _, zc)) = own.last() {
                    let u = b.is_unique();
                    if u && *zc && !b.is_empty() && (nb >= 2 || shared_ref.is_some() || sh.owner) {
                        out.errs.push(format!("is_unique() answered true while this thread holds {nb} handles on the storage (lent ref: {}, owner-backed: {})", shared_ref.is_some(), sh.owner));
                    }
                }
            }
            Op::IsUniqueRef => {
                if let Some(s) = shared_ref {
                    let u = s.is_unique();
                    if u && sh.owner {
                        out.errs.push("is_unique() answered true for owner-backed data".into());
                    }
                    // a handle of this thread's own on the same storage makes "unique" impossible
                    if u && own.iter().any(|h| matches!(h, H::B(b, _, true) if !b.is_empty())) {
                        out.errs.push("is_unique() through the lent &Bytes answered true while this thread holds another handle on the storage".into());
                    }
                }
            }
            Op::MutIntoVec => {
                if let Some(H::M(..)) = own.last() {
                    if let Some(H::M(m, model)) = own.pop() {
                        let mut v: Vec<u8> = m.into();
                        if v != model {
                            out.errs.push("BytesMut into Vec changed the contents".into());
                        }
                        let marker = 0xC0 | tid as u8;
                        for x in v.iter_mut() {
                            *x = marker;
                        }
                        let n = v.len();
                        out.kept.push(H::V(v, vec![marker; n]));
                    }
                }
            }
        }
    }
    // final: read everything once more, then drop own handles (the shared Arc last)
    for h in &own {
        if let H::B(b, off, zc) = h {
            check_b(b, *off, *zc, sh, &mut out.errs, "final read");
            out.reads += 1;
        }
    }
    while let Some(h) = own.pop() {
        drop(h);
    }
    DONE_CNT.fetch_add(1, Relaxed);
    // exclusive results must still hold what this thread wrote
    for h in &out.kept {
        match h {
            H::M(m, model) => {
                if &m[..] != &model[..] {
                    out.errs.push("exclusive BytesMut was modified by someone else".into());
                }
            }
            H::V(v, model) => {
                if v != model {
                    out.errs.push("exclusive Vec was modified by someone else".into());
                }
            }
            _ => {}
        }
    }
    out
}

struct ExecResult {
    errs: Vec<String>,
    sig: u64,
    wins: usize,
    copies: u32,
    cas_lost: bool,
    events: usize,
    per_thread: [u32; 10],
}

fn execute(p: &Prog, seed: u64, tag: u32) -> ExecResult {
    LOGN.store(0, Relaxed);
    DONE_CNT.store(0, Relaxed);
    WORKERS.store(p.threads.len() as u32, Relaxed);
    let mut d = data();
    let nt = p.threads.len();
    let mut owns: Vec<Vec<H>> = (0..nt).map(|_| Vec::new()).collect();
    // a handle that stays with the main thread and is only lent out as `&Bytes` (no Arc: its
    // reference counting would add happens-before edges of its own)
    let mut shared_ref: Option<Bytes> = None;
    let with_ref = p.with_ref;
    let base;
    match p.setup {
        0 => {
            let mut v = Vec::with_capacity(LEN);
            v.extend_from_slice(&d);
            let mut b = Bytes::from(v);
            // a front offset on the still unpromoted handle (odd program ids)
            if p.front_off > 0 {
                b.advance(p.front_off);
                d.drain(..p.front_off);
            }
            base = b.as_ptr() as usize;
            shared_ref = Some(b);
        }
        1 | 2 => {
            let mut v = Vec::with_capacity(if p.setup == 1 { LEN } else { CAP });
            v.extend_from_slice(&d);
            let b = Bytes::from(v);
            base = b.as_ptr() as usize;
            for o in owns.iter_mut() {
                o.push(H::B(b.clone(), 0, true));
            }
            if with_ref {
                shared_ref = Some(b);
            }
        }
        3 => {
            let mut m = BytesMut::with_capacity(CAP);
            m.extend_from_slice(&d);
            let b = m.split().freeze();
            base = b.as_ptr() as usize;
            for o in owns.iter_mut() {
                o.push(H::B(b.clone(), 0, true));
            }
            drop(m);
            if with_ref {
                shared_ref = Some(b);
            }
        }
        4 => {
            let b = Bytes::from_owner(OwnerBuf { buf: d.clone() });
            base = b.as_ptr() as usize;
            for o in owns.iter_mut() {
                o.push(H::B(b.clone(), 0, true));
            }
            if with_ref {
                shared_ref = Some(b);
            }
        }
        5 => {
            let mut m = BytesMut::with_capacity(CAP);
            m.extend_from_slice(&d);
            base = m.as_ptr() as usize;
            let per = LEN / nt;
            for (i, o) in owns.iter_mut().enumerate() {
                if i + 1 < nt {
                    let h = m.split_to(per);
                    o.push(H::M(h, d[i * per..(i + 1) * per].to_vec()));
                } else {
                    let rest = std::mem::take(&mut m);
                    o.push(H::M(rest, d[i * per..].to_vec()));
                }
            }
        }
        _ => {
            let mut m = BytesMut::with_capacity(CAP);
            m.extend_from_slice(&d);
            base = m.as_ptr() as usize;
            let head = m.split_to(LEN / 2).freeze();
            for (i, o) in owns.iter_mut().enumerate() {
                if i + 1 < nt {
                    o.push(H::B(head.clone(), 0, true));
                }
            }
            owns[nt - 1].push(H::M(m, d[LEN / 2..].to_vec()));
            if with_ref {
                shared_ref = Some(head);
            }
        }
    }
    let sh = Shared { base, data: d, owner: p.setup == 4 };
    let barrier = Barrier::new(nt);
    let mut outs: Vec<ThreadOut> = Vec::new();
    std::thread::scope(|s| {
        let mut hs = Vec::new();
        for (i, own) in owns.into_iter().enumerate() {
            let r = shared_ref.as_ref();
            let ops = &p.threads[i];
            let sh = &sh;
            let barrier = &barrier;
            hs.push(s.spawn(move || {
                barrier.wait();
                run_thread(i as u32 + 1, ops, own, r, sh, seed, tag)
            }));
        }
        for h in hs {
            match h.join() {
                Ok(o) => outs.push(o),
                Err(_) => outs.push(ThreadOut { errs: vec!["worker thread panicked".into()], ..Default::default() }),
            }
        }
    });
    drop(shared_ref);
    // post-join trace checks
    let mut errs = Vec::new();
    let mut wins: Vec<(usize, usize)> = Vec::new();
    let mut copies = 0;
    for (i, o) in outs.iter().enumerate() {
        for e in &o.errs {
            errs.push(format!("thread {}: {e}", i + 1));
        }
        wins.extend(o.zero_copy_wins.iter().cloned());
        copies += o.copies;
    }
    // exclusive regions kept until now must be pairwise disjoint
    let mut regs: Vec<(usize, usize)> = Vec::new();
    for o in &outs {
        for h in &o.kept {
            match h {
                H::M(m, _) if m.capacity() > 0 => regs.push((m.as_ptr() as usize, m.as_ptr() as usize + m.capacity())),
                H::V(v, _) if v.capacity() > 0 => regs.push((v.as_ptr() as usize, v.as_ptr() as usize + v.capacity())),
                _ => {}
            }
        }
    }
    for i in 0..regs.len() {
        for j in i + 1..regs.len() {
            if regs[i].0 < regs[j].1 && regs[j].0 < regs[i].1 {
                errs.push(format!("two exclusive owners overlap: [{:#x},{:#x}) and [{:#x},{:#x})", regs[i].0, regs[i].1, regs[j].0, regs[j].1));
            }
        }
    }
    // at most one party gets the whole original buffer without copying (Bytes-based setups)
    if p.setup <= 4 && wins.len() > 1 {
        errs.push(format!("{} parties obtained zero-copy exclusive ownership: {:x?}", wins.len(), wins));
    }
    drop(outs);
    let n = LOGN.load(Relaxed).min(LOGCAP);
    let mut sig = 0u64;
    let mut cas_lost = false;
    let mut per_thread = [0u32; 10];
    for e in LOG.iter().take(n) {
        let v = e.load(Relaxed);
        sig = fnv_u64(sig, v as u64);
        if v & 0xff == 3 {
            cas_lost = true;
        }
        let t = (v >> 8) as usize;
        if t < 10 {
            per_thread[t] += 1;
        }
    }
    ExecResult { errs, sig, wins: wins.len(), copies, cas_lost, events: n, per_thread }
}

// ------------------------------------------------------------------ program generation

fn gen_prog(r: &mut Rng, big: bool) -> Prog {
    let setup = r.below(N_SETUPS as usize) as u8;
    let nt = if big { 4 + r.below(5) } else if r.chance(1, 3) { 3 } else { 2 };
    let with_ref = setup == 0 || r.chance(1, 3);
    let mut threads = Vec::new();
    for t in 0..nt {
        let is_m = setup == 5 || (setup == 6 && t == nt - 1);
        let n = if big { 5 + r.below(16) } else { 1 + r.below(3) };
        let mut ops = Vec::new();
        for _ in 0..n {
            ops.push(if is_m { *r.pick(&M_OPS) } else { *r.pick(&B_OPS) });
        }
        // racy shapes: a reader that drops, and someone who converts / frees afterwards
        if setup == 0 {
            ops.insert(0, Op::CloneRef);
            // a quarter of the threads first ask is_unique() through the lent handle, i.e. before they have
            // synchronised with a promotion performed by another thread
            if r.chance(1, 4) {
                ops.insert(0, Op::IsUniqueRef);
            }
        }
        if !big && !is_m && r.chance(1, 3) {
            ops = vec![if setup == 0 { Op::CloneRef } else { Op::Read }, Op::Read, Op::Drop];
        } else if !is_m && r.chance(1, 4) {
            ops.push(*r.pick(&[Op::TryIntoMut, Op::IntoMut, Op::IntoVec]));
        }
        threads.push(ops);
    }
    let front_off = if setup == 0 && r.chance(1, 2) { 1 + r.below(7) } else { 0 };
    Prog { setup, with_ref, front_off, threads }
}

fn prog_name(p: &Prog) -> String {
    let t: Vec<String> = p.threads.iter().map(|o| o.iter().map(|x| format!("{x:?}")).collect::<Vec<_>>().join(",")).collect();
    format!("{}{}{}[{}]", SETUP_NAMES[p.setup as usize], if p.with_ref { "+ref" } else { "" }, if p.front_off > 0 { "+off" } else { "" }, t.join("|"))
}

fn main() {
    let a = Args::parse();
    util::silence_panics();
    util::apply_parity(&a);
    let hooked = install_hook();
    let seed = a.u64("seed", 1);
    let shard = a.usize("shard", 0);
    let nshards = a.usize("nshards", 1).max(1);
    let progs = a.usize("progs", 100);
    let reps = a.usize("reps", if a.mode == "miri" { 1 } else { 200 });
    let only = a.get("only").map(|v| v.parse::<usize>().unwrap());
    let base_mode = if !hooked || a.flag("no-delays") { 0 } else if a.mode == "miri" { 2 } else { 1 };
    DELAY_MODE.store(base_mode, Relaxed);
    // after the randomly delayed repetitions: one execution per (thread, hook event) placement in which that thread
    // is held at that event until all others have finished -- every single-preemption schedule of the program
    let directed = a.flag("directed") && hooked && a.mode != "miri";
    util::warm_up();
    let mut o = Obs::new();
    o.add("hook_active", hooked as u64);
    #[cfg(feature = "ledger")]
    let mut tag = 1000u32;
    for pi in 0..progs {
        let g = shard + pi * nshards;
        if only.map(|x| x != g).unwrap_or(false) {
            continue;
        }
        let mut r = Rng::new(mix2(seed, g as u64));
        // every 8th program of a stress run is a larger randomised one (4-8 threads, 5-20 ops each)
        let big = a.mode != "miri" && pi % 8 == 7;
        let p = gen_prog(&mut r, big);
        if big {
            o.inc("big_programs");
        }
        let name = prog_name(&p);
        let case = format!("conc:{seed}:{g}");
        vharness::out::journal(&format!("{case} {name}"));
        let mut sigs: HashSet<u64> = HashSet::new();
        let mut cas_lost = 0u64;
        let mut wins = 0u64;
        let mut copies = 0u64;
        let mut maxev = [0u32; 10];
        let mut plan: Vec<(u32, u32)> = Vec::new();
        let mut rep = 0usize;
        loop {
            let dir = if rep < reps { None } else { plan.get(rep - reps).cloned() };
            if rep >= reps && dir.is_none() {
                break;
            }
            match dir {
                Some((t, k)) => {
                    HOLD_T.store(t, Relaxed);
                    HOLD_K.store(k, Relaxed);
                    DELAY_MODE.store(3, Relaxed);
                    o.inc("directed_executions");
                }
                None => DELAY_MODE.store(base_mode, Relaxed),
            }
            #[cfg(feature = "ledger")]
            {
                tag += 1;
                vharness::ledger::scope_enter(tag);
            }
            let res = execute(&p, mix2(seed ^ 0x77, (g * 100_003 + rep) as u64), {
                #[cfg(feature = "ledger")]
                {
                    tag
                }
                #[cfg(not(feature = "ledger"))]
                {
                    0
                }
            });
            #[cfg(feature = "ledger")]
            {
                vharness::ledger::scope_exit();
                if vharness::ledger::violation_count() > 0 {
                    for v in vharness::ledger::take_violations() {
                        o.viol("C05", &format!("ledger-{:?}:{}", v.kind, SETUP_NAMES[p.setup as usize]), &case, &format!("{} in program {name} rep {rep}", vharness::ledger::describe(&v)));
                    }
                }
                // worker threads allocate without a scope of their own: balance is checked on everything
                // allocated by this thread (setup) -- the buffers and control blocks
                let (c, b) = vharness::ledger::tagged_live(tag);
                // the error strings of a failed execution were allocated inside the scope
                if c != 0 && res.errs.is_empty() {
                    o.viol("C05", &format!("leak:{}", SETUP_NAMES[p.setup as usize]), &case, &format!("{c} block(s) / {b} bytes of the setup still live after join in program {name} rep {rep}"));
                }
                if rep % 16 == 15 {
                    vharness::ledger::sweep(true);
                    vharness::ledger::flush_quarantine();
                }
            }
            o.inc("executions");
            o.add("hook_events", res.events as u64);
            sigs.insert(res.sig);
            cas_lost += res.cas_lost as u64;
            wins += res.wins as u64;
            copies += res.copies as u64;
            if let Some(e) = res.errs.first() {
                let kind = if e.contains("overlap") || e.contains("parties obtained") {
                    "two-owners"
                } else if e.contains("address") {
                    "address"
                } else if e.contains("panicked") {
                    "worker-panic"
                } else {
                    "wrong-bytes"
                };
                o.viol("C05", &format!("{kind}:{}", SETUP_NAMES[p.setup as usize]), &case, &format!("{e} (and {} more) in program {name} rep {rep}{}", res.errs.len() - 1, dir.map(|(t, k)| format!(" (directed: thread {t} held at its hook event {k})")).unwrap_or_default()));
                break;
            }
            for (m, v) in maxev.iter_mut().zip(res.per_thread.iter()) {
                *m = (*m).max(*v);
            }
            rep += 1;
            if rep == reps && directed && !big {
                for t in 1..=p.threads.len().min(9) {
                    for k in 0..maxev[t].min(32) {
                        plan.push((t as u32, k));
                    }
                }
                o.add("directed_placements", plan.len() as u64);
            }
        }
        DELAY_MODE.store(base_mode, Relaxed);
        o.inc("programs");
        o.add("distinct_signatures", sigs.len() as u64);
        o.add("cas_lost_executions", cas_lost);
        o.add("zero_copy_winners", wins);
        o.add("copies", copies);
        o.add(&format!("setup{}_programs", p.setup), 1);
        if cas_lost > 0 {
            o.inc("programs_with_lost_promotion_race");
        }
        o.cell(format!("prog|{name}"));
        for s in sigs.iter().take(64) {
            o.cell(format!("il|{g}|{:016x}", s));
        }
        if pi % 37 == 0 {
            o.sample(format!("{case}: {name}: {} executions, {} distinct hook-event interleavings, promotion CAS lost in {cas_lost}, zero-copy exclusive winners {wins}, copies {copies}", reps, sigs.len()));
        }
    }
    o.add("directed_holds_taken", HELD.load(Relaxed) as u64);
    o.add("directed_hold_timeouts", HOLD_TIMEOUTS.load(Relaxed) as u64);
    for (i, h) in POINT_HITS.iter().enumerate() {
        let v = h.load(Relaxed);
        if v > 0 {
            o.add(&format!("point{i}_hits"), v as u64);
        }
    }
    o.finish();
}
