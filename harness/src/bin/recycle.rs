//! E5: allocation-trend monitor (C18) - recycling a BytesMut keeps memory and allocations bounded.
//!
//! recycle run  --seed S --shard I --nshards N --tier quick|thorough [--only IDX] [--verbose]
//! recycle list [--seed S]            grid size per tier (no pattern is run)
//!
//! Every pattern of the grid is one history of `10*W` rounds
//!
//!   reserve(n); append n bytes; [split_off + unsplit]; consume (split | split_to | advance |
//!   truncate); [freeze the part]; keep the part in a FIFO of `keep` parts (0 = dropped before
//!   the next refill); [every few rounds: freeze the whole buffer and convert it back]
//!
//! run under the ledger allocator in *counting* mode. The warm-up `W` is measured in bytes
//! pushed (>= 4 buffer generations for every retained part, see DESIGN.md C18), never less than
//! 1000 rounds. The history is cut in 10 windows of W rounds; window 0 is the warm-up.
//!
//! Oracle:
//!  (a) peak-growth : max peak live bytes of windows 1..9 <= peak of window 0 + 2*max request +
//!                    control-block slack
//!      peak-trend  : the peaks of windows 1..9 are not strictly increasing over 3 consecutive
//!                    windows
//!  (b) alloc-growth: retention 0 (every part dropped before the next refill / round trip):
//!                    no byte-buffer allocation in windows 1..9, except *capacity-doubling steps*
//!                    (a `reserve` whose single allocation is >= 2x the largest buffer this
//!                    history has had). With random sizes the last doubling of the buffer can be
//!                    triggered by a rare coincidence (buffer end reached with offset < leftover)
//!                    long after the warm-up; the number of such steps cannot grow with the
//!                    number of rounds because each doubles the buffer and (a) bounds its size
//!                    (at most one step fits under the tolerance of (a)).
//!  (c) reserve-allocates-on-sole-empty: retention 0, handle empty, the allocation behind the
//!                    handle (looked up in the ledger) is >= n bytes: `reserve(n)` performs no
//!                    byte-buffer allocation (checked on every round, warm-up included).
//! Everything is a deterministic function of (seed, pattern index).
#[cfg(feature = "ledger")]
mod engine {
    use bytes::{Buf, Bytes, BytesMut};
    use std::collections::VecDeque;
    use std::sync::atomic::Ordering::Relaxed;
    use vharness::ledger;
    use vharness::out::{self, Obs};
    use vharness::rng::{mix2, Rng};
    use vharness::util::{self, Args};

    const NWIN: usize = 10;
    const MIN_W: usize = 1000;
    const QUICK_MAX_ROUNDS: usize = 200_000;
    const MAX_ROUNDS: usize = 3_000_000;
    const GEN_BYTES: usize = 64 * 1024;
    static SRC: [u8; 16384] = [0xA5; 16384];

    #[derive(Clone, Copy, PartialEq, Eq, Debug)]
    enum Cons {
        Split,
        SplitTo,
        Advance,
        Truncate,
        /// consumption on the Bytes side: freeze the whole buffer, read it, clear()/truncate(0)/advance(len)
        /// the Bytes, convert it back (the handle is alone on its buffer all the time)
        BytesClear,
        /// `Buf::copy_to_bytes(k)` hands the consumed part out as a Bytes
        CopyToBytes,
        /// `let tail = buf.split_off(k); part = mem::replace(&mut buf, tail)`
        SplitOffSwap,
    }
    #[derive(Clone, Copy, PartialEq, Eq, Debug)]
    enum Rt {
        None,
        TryIntoMut,
        From,
    }

    #[derive(Clone, Debug)]
    struct Pattern {
        cons: Cons,
        freeze: bool,
        rt: Rt,
        unsplit: bool,
        keep: usize,
        cap: usize,
        support: &'static [usize],
        random: bool,
        leftover: usize,
    }

    impl Pattern {
        fn cons_s(&self) -> &'static str {
            match self.cons {
                Cons::Split => "split",
                Cons::SplitTo => "split_to",
                Cons::Advance => "advance",
                Cons::Truncate => "truncate",
                Cons::BytesClear => "bytes_clear",
                Cons::CopyToBytes => "copy_to_bytes",
                Cons::SplitOffSwap => "split_off_swap",
            }
        }
        fn rt_s(&self) -> &'static str {
            match self.rt {
                Rt::None => "none",
                Rt::TryIntoMut => "try_into_mut",
                Rt::From => "from",
            }
        }
        fn sizes_s(&self) -> String {
            let v: Vec<String> = self.support.iter().map(|x| x.to_string()).collect();
            format!("{}{}+{}", if self.random { "r" } else { "p" }, v.join("."), self.leftover)
        }
        fn sig_tail(&self) -> String {
            format!("{}:{}:{}", self.cons_s(), if self.freeze { "freeze" } else { "nofreeze" }, self.rt_s())
        }
        fn desc(&self) -> String {
            format!(
                "{}|freeze={}|roundtrip={}|unsplit={}|keep={}|cap={}|sizes={}",
                self.cons_s(),
                self.freeze as u8,
                self.rt_s(),
                self.unsplit as u8,
                self.keep,
                self.cap,
                self.sizes_s()
            )
        }
        fn max_req(&self) -> usize {
            *self.support.iter().max().unwrap()
        }
    }

    static SUPPORTS: [&[usize]; 5] = [&[17], &[100], &[1, 100, 1000], &[4096], &[700, 9000]];
    static CAPS: [usize; 5] = [0, 64, 1024, 4096, 65536];
    static LEFT: [usize; 3] = [0, 3, 50];

    /// The whole grid in a fixed order; the position is the pattern index.
    fn grid() -> Vec<Pattern> {
        let mut g = Vec::new();
        for cons in [Cons::Split, Cons::SplitTo, Cons::Advance, Cons::Truncate, Cons::BytesClear, Cons::CopyToBytes, Cons::SplitOffSwap] {
            let has_part = matches!(cons, Cons::Split | Cons::SplitTo | Cons::CopyToBytes | Cons::SplitOffSwap);
            for freeze in [false, true] {
                if freeze && !has_part {
                    continue; // nothing to freeze: the data is read in place
                }
                if !freeze && cons == Cons::CopyToBytes {
                    continue; // the part already is a Bytes
                }
                for rt in [Rt::None, Rt::TryIntoMut, Rt::From] {
                    for unsplit in [false, true] {
                        for keep in 0..=3usize {
                            if keep > 0 && !has_part {
                                continue; // nothing to retain
                            }
                            for &cap in CAPS.iter() {
                                for support in SUPPORTS.iter() {
                                    for random in [false, true] {
                                        if random && support.len() == 1 {
                                            continue;
                                        }
                                        for &leftover in LEFT.iter() {
                                            if (cons == Cons::Split || cons == Cons::BytesClear) && leftover != 0 {
                                                continue; // takes everything
                                            }
                                            if cons == Cons::BytesClear && rt != Rt::None {
                                                continue; // the round trip is the consumption itself
                                            }
                                            g.push(Pattern { cons, freeze, rt, unsplit, keep, cap, support, random, leftover });
                                        }
                                    }
                                }
                            }
                        }
                    }
                }
            }
        }
        g
    }

    struct Sizes {
        support: &'static [usize],
        random: bool,
        rng: Rng,
        phase: usize,
    }
    impl Sizes {
        fn new(p: &Pattern, seed: u64, idx: usize) -> Sizes {
            let h = mix2(seed, idx as u64);
            Sizes { support: p.support, random: p.random, rng: Rng::new(h), phase: (h >> 7) as usize % p.support.len() }
        }
        #[inline]
        fn next(&mut self, r: usize) -> usize {
            if self.random {
                self.support[self.rng.below(self.support.len())]
            } else {
                self.support[(r + self.phase) % self.support.len()]
            }
        }
    }

    /// Warm-up length in rounds: the round at which `4*(keep+2)*max(cap, 64Ki, max request)`
    /// bytes have been pushed, at least MIN_W. None if it exceeds `limit`.
    fn warmup_rounds(p: &Pattern, seed: u64, idx: usize, limit: usize) -> Option<usize> {
        let target = 4 * (p.keep + 2) * p.cap.max(GEN_BYTES).max(p.max_req());
        let mut s = Sizes::new(p, seed, idx);
        let mut pushed = 0usize;
        let mut r = 0usize;
        while pushed < target || r < MIN_W {
            if r >= limit {
                return None;
            }
            pushed += s.next(r);
            r += 1;
        }
        Some(r)
    }

    enum Part {
        M(#[allow(dead_code)] BytesMut),
        B(#[allow(dead_code)] Bytes),
    }

    #[derive(Default)]
    struct Run {
        w: usize,
        rounds: u64,
        peaks: [usize; NWIN],
        allocs: [u64; NWIN],
        doublings: [u64; NWIN],
        reserve_calls: u64,
        reclaimed: u64,
        allocated: u64,
        sole_probes: u64,
        sole_fail: Option<(usize, usize, usize, usize, u32)>, // round, n, block size, handle capacity, byte allocs
        sole_fails: u64,
        roundtrips: u64,
        unsplits: u64,
        leak: isize,
    }

    fn run_pattern(p: &Pattern, seed: u64, idx: usize, w: usize) -> Run {
        let mut run = Run { w, ..Default::default() };
        let mut sizes = Sizes::new(p, seed, idx);
        let h = mix2(seed ^ 0xC18, idx as u64);
        let rt_every = 1 + (h % 5) as usize;
        let rt_phase = ((h >> 8) as usize) % rt_every;
        let mut aux = Rng::new(h);
        let mut fifo: VecDeque<Part> = VecDeque::with_capacity(p.keep + 2);
        let total = NWIN * w;

        ledger::scope_enter(idx as u32 + 1);
        let live0 = ledger::T_LIVE_BYTES.load(Relaxed);
        ledger::reset_peak();
        let mut a0 = ledger::T_BYTE_ALLOCS.load(Relaxed);
        let mut buf = BytesMut::with_capacity(p.cap);
        let mut win = 0usize;
        let mut next_edge = w;
        let mut maxbuf = p.cap;
        for r in 0..total {
            let n = sizes.next(r);
            // Bytes-side consumption: keep one spare byte so that the frozen handle is never in the
            // exactly-full (promotable) form, whose clear()/truncate(0) legitimately releases the buffer
            let want = if p.cons == Cons::BytesClear { n + 1 } else { n };
            // ---- refill
            let mut probe_block = 0usize;
            if p.keep == 0 && buf.is_empty() {
                let addr = buf.as_ptr() as usize;
                if addr > 4096 {
                    if let Some(b) = ledger::find_live(addr) {
                        if b.isbyte && b.size >= want {
                            probe_block = b.size;
                        }
                    }
                }
            }
            let hcap = buf.capacity();
            ledger::reset_events();
            buf.reserve(want);
            let ev = ledger::events();
            run.reserve_calls += 1;
            if ev.byte_allocs == 0 {
                run.reclaimed += 1;
            } else {
                run.allocated += 1;
                if ev.byte_allocs == 1 && maxbuf > 0 && ev.max_byte_alloc >= 2 * maxbuf {
                    run.doublings[win] += 1;
                }
                maxbuf = maxbuf.max(ev.max_byte_alloc);
            }
            if probe_block != 0 {
                run.sole_probes += 1;
                if ev.byte_allocs != 0 {
                    run.sole_fails += 1;
                    if run.sole_fail.is_none() {
                        run.sole_fail = Some((r, n, probe_block, hcap, ev.byte_allocs));
                    }
                }
            }
            buf.extend_from_slice(&SRC[..n]);
            // ---- split a tail off and put it back
            if p.unsplit {
                if r % 2 == 0 {
                    let at = aux.below(buf.len() + 1);
                    let tail = buf.split_off(at);
                    buf.unsplit(tail);
                } else {
                    // put-back: take everything out and hand it back to the (empty, non-zero capacity) rest
                    let head = buf.split();
                    buf.unsplit(head);
                }
                run.unsplits += 1;
            }
            // ---- consume
            let len = buf.len();
            let k = len.saturating_sub(p.leftover);
            let part = match p.cons {
                Cons::Split => Some(buf.split()),
                Cons::SplitTo => Some(buf.split_to(k)),
                Cons::CopyToBytes => {
                    let b = buf.copy_to_bytes(k);
                    fifo.push_back(Part::B(b));
                    None
                }
                Cons::SplitOffSwap => {
                    let tail = buf.split_off(k);
                    Some(std::mem::replace(&mut buf, tail))
                }
                Cons::Advance => {
                    std::hint::black_box(&buf[..k]);
                    buf.advance(k);
                    None
                }
                Cons::Truncate => {
                    std::hint::black_box(&buf[..]);
                    buf.truncate(p.leftover);
                    None
                }
                Cons::BytesClear => {
                    let mut b: Bytes = std::mem::take(&mut buf).freeze();
                    std::hint::black_box(&b[..]);
                    match (r + idx) % 3 {
                        0 => b.clear(),
                        1 => b.truncate(0),
                        _ => {
                            let n = b.len();
                            b.advance(n)
                        }
                    }
                    buf = if idx % 2 == 0 {
                        BytesMut::from(b)
                    } else {
                        match b.try_into_mut() {
                            Ok(m) => m,
                            Err(b) => BytesMut::from(b),
                        }
                    };
                    run.roundtrips += 1;
                    None
                }
            };
            if let Some(m) = part {
                fifo.push_back(if p.freeze { Part::B(m.freeze()) } else { Part::M(m) });
            }
            while fifo.len() > p.keep {
                drop(fifo.pop_front());
            }
            // ---- round trip of the main buffer through Bytes
            if p.rt != Rt::None && r % rt_every == rt_phase {
                let b: Bytes = std::mem::take(&mut buf).freeze();
                buf = match p.rt {
                    Rt::TryIntoMut => match b.try_into_mut() {
                        Ok(m) => m,
                        Err(b) => BytesMut::from(b),
                    },
                    _ => BytesMut::from(b),
                };
                run.roundtrips += 1;
            }
            // ---- window edge
            if r + 1 == next_edge {
                run.peaks[win] = ledger::T_PEAK_BYTES.load(Relaxed).saturating_sub(live0);
                let a1 = ledger::T_BYTE_ALLOCS.load(Relaxed);
                run.allocs[win] = a1 - a0;
                a0 = a1;
                ledger::reset_peak();
                // a history whose live memory has clearly exploded is not run to the end (the
                // ledger's live list makes it quadratic); the remaining windows inherit the peak so
                // that clause (a) reports it
                if win >= 2 && run.peaks[win] > 4 * run.peaks[0] + (4 << 20) {
                    let pk = run.peaks[win];
                    for k in win + 1..NWIN {
                        run.peaks[k] = pk;
                    }
                    run.rounds = (r + 1) as u64;
                    break;
                }
                win += 1;
                next_edge += w;
            }
        }
        if run.rounds == 0 {
            run.rounds = total as u64;
        }
        drop(buf);
        drop(fifo);
        run.leak = ledger::T_LIVE_BYTES.load(Relaxed) as isize - live0 as isize;
        ledger::scope_exit();
        run
    }

    pub fn main() {
        util::silence_panics();
        util::warm_up();
        ledger::set_full(false);
        let args = Args::parse();
        let seed = args.u64("seed", 1);
        let shard = args.usize("shard", 0);
        let nshards = args.usize("nshards", 1).max(1);
        let tier = args.str("tier", "quick");
        let only = args.get("only").and_then(|v| v.parse::<usize>().ok());
        let verbose = args.flag("verbose");
        let g = grid();

        if args.mode == "list" {
            let (mut q, mut qr, mut tr, mut capped) = (0u64, 0u64, 0u64, 0u64);
            for (idx, p) in g.iter().enumerate() {
                let w = match warmup_rounds(p, seed, idx, MAX_ROUNDS / NWIN) {
                    Some(w) => w,
                    None => {
                        capped += 1;
                        MAX_ROUNDS / NWIN
                    }
                };
                tr += (w * NWIN) as u64;
                if w * NWIN <= QUICK_MAX_ROUNDS {
                    q += 1;
                    qr += (w * NWIN) as u64;
                }
            }
            println!("NOTE grid patterns={} quick={} quick_rounds={} thorough_rounds={} capped={}", g.len(), q, qr, tr, capped);
            println!("DONE");
            return;
        }
        if args.mode != "run" {
            eprintln!("usage: recycle run --seed S --shard I --nshards N --tier quick|thorough [--only IDX]");
            std::process::exit(2);
        }
        let quick = tier != "thorough";
        let mut o = Obs::new();
        o.max_samples = 8;
        o.add("grid_patterns", g.len() as u64);
        let mut sampled = 0usize;
        let mut bad_patterns = 0usize;
        for (idx, p) in g.iter().enumerate() {
            if bad_patterns >= 12 && only.is_none() {
                // the check has failed many times over; histories that leak are slow (the ledger's live list grows),
                // so the rest of this shard is not run
                o.inc("shards_stopped_after_12_violating_patterns");
                break;
            }
            if let Some(x) = only {
                if x != idx {
                    continue;
                }
            } else if idx % nshards != shard {
                continue;
            }
            let limit = if quick && only.is_none() { QUICK_MAX_ROUNDS / NWIN } else { MAX_ROUNDS / NWIN };
            let w = match warmup_rounds(p, seed, idx, limit) {
                Some(w) => w,
                None if quick && only.is_none() => {
                    o.inc("patterns_skipped_tier");
                    continue;
                }
                None => {
                    o.inc("patterns_capped");
                    limit
                }
            };
            out::journal(&format!("pat:{idx}"));
            let case = format!("pat:{idx}");
            let res = util::catch(|| run_pattern(p, seed, idx, w));
            while ledger::in_scope() {
                ledger::scope_exit();
            }
            let run = match res {
                Ok(r) => r,
                Err(msg) => {
                    o.inc("patterns_panicked");
                    o.note(&format!("pat:{idx} {} panicked: {msg}", p.desc()));
                    continue;
                }
            };
            o.inc("patterns");
            o.add("rounds", run.rounds);
            o.add("reserve_calls", run.reserve_calls);
            o.add("reserve_reclaimed", run.reclaimed);
            o.add("reserve_allocated", run.allocated);
            o.add("sole_empty_probes", run.sole_probes);
            o.add("windows_checked", (NWIN - 1) as u64);
            o.add("roundtrips", run.roundtrips);
            o.add("unsplits", run.unsplits);
            o.max("max_rounds_per_pattern", run.rounds);
            if run.leak != 0 {
                o.inc("patterns_with_live_delta");
            }
            let lv = ledger::violation_count();
            if lv != 0 {
                let vs = ledger::take_violations();
                o.add("collateral_ledger_violations", lv as u64);
                if let Some(v) = vs.first() {
                    o.note(&format!("collateral pat:{idx} ledger: {}", ledger::describe(v)));
                }
            }

            // ---------------------------------------------------------------- oracle
            let series = format!(
                "W={} peaks={:?} byte_allocs={:?} doubling_steps={:?} reserve(reclaimed={},allocated={}) sole_probes={}",
                run.w, run.peaks, run.allocs, run.doublings, run.reclaimed, run.allocated, run.sole_probes
            );
            let mut bad: Vec<&str> = Vec::new();
            let warm_peak = run.peaks[0];
            let later_peak = *run.peaks[1..].iter().max().unwrap();
            let tol = 2 * p.max_req() + 64 * (p.keep + 4);
            if later_peak > warm_peak + tol {
                bad.push("peak-growth");
                o.viol(
                    "C18",
                    &format!("peak-growth:{}", p.sig_tail()),
                    &case,
                    &format!("{} seed={seed}: peak live bytes after warm-up {later_peak} > warm-up peak {warm_peak} + tolerance {tol}; {series}", p.desc()),
                );
            }
            let mut trend = None;
            for i in 1..NWIN - 2 {
                if run.peaks[i] < run.peaks[i + 1] && run.peaks[i + 1] < run.peaks[i + 2] {
                    trend = Some(i);
                    break;
                }
            }
            if let Some(i) = trend {
                bad.push("peak-trend");
                o.viol(
                    "C18",
                    &format!("peak-trend:{}", p.sig_tail()),
                    &case,
                    &format!("{} seed={seed}: per-window peak live bytes strictly increasing over windows {}..{}; {series}", p.desc(), i, i + 2),
                );
            }
            let late_allocs: u64 = run.allocs[1..].iter().sum();
            let late_doublings: u64 = run.doublings[1..].iter().sum();
            o.add("late_doubling_steps", late_doublings);
            if p.keep == 0 && late_allocs > late_doublings {
                bad.push("alloc-growth");
                o.viol(
                    "C18",
                    &format!("alloc-growth:{}", p.sig_tail()),
                    &case,
                    &format!("{} seed={seed}: {late_allocs} byte-buffer allocations ({late_doublings} of them capacity-doubling steps) after the warm-up although every part is dropped before the next refill; {series}", p.desc()),
                );
            }
            if let Some((r, n, blk, hcap, na)) = run.sole_fail {
                bad.push("sole-empty-alloc");
                o.viol(
                    "C18",
                    &format!("reserve-allocates-on-sole-empty:{}", p.sig_tail()),
                    &case,
                    &format!(
                        "{} seed={seed}: round {r}: reserve({n}) on an empty sole handle (handle capacity {hcap}) whose allocation has {blk} bytes made {na} byte-buffer allocation(s); {} such calls of {} probes; {series}",
                        p.desc(),
                        run.sole_fails,
                        run.sole_probes
                    ),
                );
            }
            let outcome = if !bad.is_empty() {
                format!("VIOL-{}", bad.join("+"))
            } else if p.keep == 0 && late_allocs != 0 {
                "reclaim-late-doubling-step".to_string()
            } else if late_allocs == 0 {
                let warm = run.allocs[0];
                if warm <= 1 {
                    "reclaim-single-buffer".to_string()
                } else {
                    "reclaim-alloc-warmup-only".to_string()
                }
            } else {
                "alloc-steady-retained".to_string()
            };
            if !bad.is_empty() {
                bad_patterns += 1;
            }
            o.cell(format!("pat|{}|outcome={outcome}", p.desc()));
            if verbose || !bad.is_empty() || (idx / nshards) % 97 == 0 && sampled < 8 {
                sampled += 1;
                o.sample(format!("pat:{idx} {} outcome={outcome} {series}", p.desc()));
                if verbose {
                    println!("NOTE pat:{idx} {} outcome={outcome} {series}", p.desc());
                }
            }
        }
        o.finish();
    }
}

#[cfg(feature = "ledger")]
fn main() {
    engine::main()
}

#[cfg(not(feature = "ledger"))]
fn main() {
    println!("INCONCLUSIVE reason=recycle needs the ledger feature (counting allocator)");
    println!("DONE");
}
