//! E1: op-sequence driver. See DESIGN.md §3.2.
//!
//! seqdrive walk  --seed S --shard I --nshards N --count K [--ops-min a --ops-max b] [--ooc] [--profile mut]
//!                [--parity even|odd|mixed] [--digest] [--only GLOBAL_INDEX]
//! seqdrive exh   --depth D --shard I --nshards N [--ooc] [--max-cases M] [--secs T] [--parity ..]
#[cfg(not(tokio_rs_bytes_verif))]
fn main() {
    eprintln!("seqdrive needs --cfg tokio_rs_bytes_verif");
    std::process::exit(2);
}

#[cfg(tokio_rs_bytes_verif)]
fn main() {
    imp::main()
}

#[cfg(tokio_rs_bytes_verif)]
mod imp {
    use std::time::Instant;
    use vharness::rng::{mix2, Rng};
    use vharness::seq::chooser::{Chooser, Odo, RandCh};
    use vharness::seq::ops;
    use vharness::seq::pool::{Driver, Profile};
    use vharness::util::{self, Args};

    fn set_parity(a: &Args) {
        util::apply_parity(a);
    }

    pub fn main() {
        let a = Args::parse();
        util::silence_panics();
        util::warm_up();
        set_parity(&a);
        let mut d = Driver::new();
        d.ooc = a.flag("ooc");
        d.primary = a.str("prop", "");
        d.profile = if a.str("profile", "general") == "mut" { Profile::MutCentred } else { Profile::General };
        let t0 = Instant::now();
        match a.mode.as_str() {
            "walk" => walk(&a, &mut d),
            "exh" => exh(&a, &mut d, t0),
            "single" => single(&a, &mut d),
            "bigoff" => bigoff(&a, &mut d),
            m => {
                eprintln!("unknown mode {m}");
                std::process::exit(2);
            }
        }
        #[cfg(feature = "ledger")]
        {
            use std::sync::atomic::Ordering::Relaxed;
            use vharness::ledger as l;
            d.obs.add("ledger_allocs", l::ALL_ALLOCS.load(Relaxed));
            d.obs.add("ledger_frees", l::ALL_FREES.load(Relaxed));
            d.obs.add("ledger_reallocs", l::REALLOCS.load(Relaxed));
            d.obs.add("redzone_checks", l::RZ_CHECKS.load(Relaxed));
            d.obs.add("poison_checks", l::POISON_CHECKS.load(Relaxed));
            d.obs.add("odd_buffers", l::ODD_BUFS.load(Relaxed));
            d.obs.add("even_buffers", l::EVEN_BUFS.load(Relaxed));
        }
        d.obs.add("steps", d.steps);
        d.obs.finish();
    }

    fn walk(a: &Args, d: &mut Driver) {
        let seed = a.u64("seed", 1);
        let shard = a.usize("shard", 0);
        let nshards = a.usize("nshards", 1).max(1);
        let count = a.usize("count", 100);
        let omin = a.usize("ops-min", 30);
        let omax = a.usize("ops-max", 150).max(omin);
        let only = a.get("only").map(|v| v.parse::<usize>().unwrap());
        let digest = a.flag("digest");
        // short histories: a start state followed by 3..6 ops -- dense coverage of specific multi-step
        // sequences on one lineage, between the depth-2 enumeration and the long walks
        let short = a.flag("short");
        let flags = format!("{}{}{}", if d.ooc { "o" } else { "" }, if d.profile == Profile::MutCentred { "m" } else { "" }, if short { "s" } else { "" });
        for c in 0..count {
            let g = shard + c * nshards;
            if let Some(o) = only {
                if o != g {
                    continue;
                }
            }
            let case = format!("walk:{seed}:{g}:{flags}");
            vharness::out::journal(&case);
            let mut ch = RandCh(Rng::new(mix2(seed, g as u64)));
            #[cfg(feature = "ledger")]
            vharness::ledger::set_mix_seed(mix2(seed ^ 0x55, g as u64));
            d.begin(case);
            let nops = if short { 3 + ch.choose(4) } else { omin + ch.choose(omax - omin + 1) };
            if short || ch.chance(1, 2) {
                let st = ch.choose(ops::N_STARTS);
                ops::start_state(d, st);
                d.check_all();
            }
            let mut n = 0;
            while n < nops && !d.failed {
                ops::step(d, &mut ch, !short);
                n += 1;
            }
            if !d.failed && d.obs.samples.len() < d.obs.max_samples && c % 7 == 0 {
                d.sample_trace();
            }
            let dg = d.digest;
            d.finish(&mut ch, false);
            d.obs.inc("histories");
            d.obs.add("ops", n as u64);
            if digest {
                println!("DIGEST walk{flags} {g} {dg:016x}");
            }
        }
    }

    /// 32-bit only path: an inline-Vec BytesMut whose front offset no longer fits the pointer-tag bits
    /// (> usize::MAX >> 5) is promoted to the shared form inside `advance`. Reachable on a 32-bit target
    /// with a ~135 MB buffer (run under Miri `--target i686-unknown-linux-gnu`); on 64-bit targets the
    /// same history simply stays in the inline form.
    fn bigoff(a: &Args, d: &mut Driver) {
        use bytes::{Buf, BufMut, BytesMut};
        use vharness::seq::pool::{Origin, Val};
        let limit = (usize::MAX >> 5) as u64;
        let n = a.u64("size", (limit.min(1 << 27) + 4096).min(200_000_000)) as usize;
        let case = format!("bigoff:{n}");
        vharness::out::journal(&case);
        let mut ch = RandCh(Rng::new(a.u64("seed", 1)));
        d.begin(case);
        let mut m = BytesMut::zeroed(n);
        let tail = 64usize;
        // a recognisable tail
        for (i, b) in m[n - tail..].iter_mut().enumerate() {
            *b = i as u8 ^ 0x5a;
        }
        let want: Vec<u8> = (0..tail).map(|i| i as u8 ^ 0x5a).collect();
        let before = m.__verif_repr();
        let p0 = m.as_ptr() as usize;
        m.advance(n - tail);
        let after = m.__verif_repr();
        ops::expect_ptr(d, "advance-promote", "view", m.as_ptr() as usize, p0 + (n - tail), "MutVec");
        d.cell(format!("bigoff|{:?}->{:?}|ptr{}", before.kind, after.kind, usize::BITS));
        d.count("bigoff_runs");
        if after.kind != before.kind {
            d.count("bigoff_promoted_in_advance");
        }
        d.log(format!("BytesMut::zeroed({n}); advance({}) : {:?} -> {:?}", n - tail, before.kind, after.kind));
        d.add(Val::M(m), want, Origin::Heap);
        d.check_all();
        // continue with ordinary short histories on that handle
        let mut k = 0;
        while k < a.usize("ops", 12) && !d.failed {
            ops::step(d, &mut ch, false);
            k += 1;
        }
        // and a second, independent handle with a put after the promotion
        let mut m2 = BytesMut::zeroed(n);
        m2.advance(n - 8);
        m2.put_slice(b"abcdefgh12345678");
        let model: Vec<u8> = [vec![0u8; 8], b"abcdefgh12345678".to_vec()].concat();
        d.add(Val::M(m2), model, Origin::Heap);
        d.check_all();
        // the sole handle of a buffer promoted inside advance() is still its unique owner
        {
            let mut m3 = BytesMut::zeroed(n);
            m3[n - 4..].copy_from_slice(b"wxyz");
            m3.advance(n - 4);
            let p3 = m3.as_ptr() as usize;
            d.log(format!("BytesMut::zeroed({n}); advance({}); freeze; is_unique; try_into_mut", n - 4));
            let b = m3.freeze();
            d.count("unique_queries");
            if !b.is_unique() {
                d.viol("C08", "unique-false-negative:bigoff", "the only handle of a buffer promoted inside advance() is reported as shared");
            }
            match b.try_into_mut() {
                Ok(mut back) => {
                    ops::expect_ptr(d, "try_into_mut", "bigoff", back.as_ptr() as usize, p3, "shared");
                    d.count("reclaim_queries");
                    if !back.try_reclaim(4) {
                        d.viol("C08", "reclaim-refused:bigoff", "try_reclaim(4) refused on the emptied sole handle of a 128 MiB buffer");
                    }
                    back.clear();
                    if !back.try_reclaim(n) {
                        d.viol("C08", "reclaim-refused:bigoff", "try_reclaim(whole allocation) refused on the emptied sole handle");
                    }
                    d.add(Val::M(back), Vec::new(), Origin::Heap);
                }
                Err(b) => {
                    d.viol("C08", "try_into_mut-refused:bigoff", "try_into_mut failed on the only handle of a buffer promoted inside advance()");
                    d.add(Val::B(b), b"wxyz".to_vec(), Origin::Heap);
                }
            }
            d.check_all();
        }
        // Bytes -> BytesMut of a unique Bytes whose front offset is beyond the inline limit
        {
            let mut v = vec![0u8; n];
            v[n - 4..].copy_from_slice(b"ABCD");
            let mut b = bytes::Bytes::from(v);
            b.advance(n - 4);
            let pb = b.as_ptr() as usize;
            d.log(format!("Bytes::from(vec![0; {n}]); advance({}); BytesMut::from", n - 4));
            let m4 = BytesMut::from(b);
            ops::expect_ptr(d, "into_mut", "bigoff", m4.as_ptr() as usize, pb, "promotable");
            d.add(Val::M(m4), b"ABCD".to_vec(), Origin::Heap);
            d.check_all();
        }
        d.sample_trace();
        d.finish(&mut ch, false);
        d.obs.inc("histories");
    }

    /// One abort-class request in its own process: a capacity that is representable but cannot be
    /// allocated. Accepted outcomes: a panic (printed) or the allocator's failure abort (SIGABRT,
    /// judged by the orchestrator). If the call returns, the usual monitors decide.
    fn single(a: &Args, d: &mut Driver) {
        use bytes::BufMut;
        use vharness::seq::pool::Val;
        let start = a.usize("start", 8);
        let op = a.usize("op", 0);
        let cls = a.usize("arg", 0);
        let case = format!("single:{start}:{op}:{cls}");
        vharness::out::journal(&case);
        let mut ch = RandCh(Rng::new(1));
        d.begin(case.clone());
        ops::start_state(d, start);
        d.check_all();
        let i = (0..d.pool.len()).find(|&k| matches!(d.pool[k].val, Val::M(_))).expect("start state without BytesMut");
        let (len, cap) = (d.pool[i].len(), d.pool[i].cap());
        let n = match cls {
            0 => (1u64 << 41).min(usize::MAX as u64 / 4) as usize,
            1 => (1u64 << 46).min(usize::MAX as u64 / 3) as usize,
            2 => isize::MAX as usize / 2,
            3 => isize::MAX as usize - len - 1,
            4 => isize::MAX as usize - len,
            _ => (isize::MAX as usize - cap).min(isize::MAX as usize - len - 7),
        };
        // the harness's own bookkeeping (snapshots, strings) is allocated outside the ledger scope, so that the
        // leak balance at the end of the history counts the crate's allocations only
        let snap = {
            let _p = vharness::seq::mem::pause();
            d.snapshot()
        };
        let r = {
            let m = match &mut d.pool[i].val {
                Val::M(m) => m,
                _ => unreachable!(),
            };
            util::catch(|| match op {
                0 => m.reserve(n),
                1 => m.resize(len + n, 1),
                2 => m.put_bytes(2, n),
                _ => {
                    let _ = m.try_reclaim(n);
                }
            })
            .map_err(|_msg| ()) // the message string is the harness's, not the crate's: dropped here
        };
        let _p = vharness::seq::mem::pause();
        d.obs.inc("abort_class_calls");
        match r {
            Err(_) => {
                d.obs.inc("abort_class_panicked");
                println!("SINGLE {case} outcome=panicked");
                if d.snapshot() != snap {
                    d.viol("C13", "abort-class-panic-changed-state", &format!("abort-class request {case} (n={n}) panicked but changed a handle"));
                }
            }
            Ok(()) => {
                if op == 3 {
                    println!("SINGLE {case} outcome=try_reclaim-answered");
                    if d.snapshot() != snap {
                        d.viol("C04", "abort-class-try_reclaim-changed", &format!("try_reclaim({n}) on {case} changed the handle"));
                    }
                } else {
                    println!("SINGLE {case} outcome=returned");
                    d.viol("C04", "abort-class-returned", &format!("request {case} (n={n}, len={len}, cap={cap}) returned; capacity is now {}", d.pool[i].cap()));
                    d.viol("C13", "abort-class-returned", &format!("request {case} (n={n}, len={len}, cap={cap}) returned; capacity is now {}", d.pool[i].cap()));
                }
            }
        }
        drop(snap);
        drop(_p);
        d.check_all();
        {
            let _p = vharness::seq::mem::pause();
            d.obs.cell(format!("single|start{start}|op{op}|arg{cls}"));
            d.obs.sample(format!("{case}: n={n} on a BytesMut with len={len} cap={cap}"));
        }
        d.finish(&mut ch, false);
        d.obs.inc("histories");
    }

    fn exh(a: &Args, d: &mut Driver, t0: Instant) {
        let depth = a.usize("depth", 2);
        let shard = a.usize("shard", 0);
        let nshards = a.usize("nshards", 1).max(1);
        let max_cases = a.u64("max-cases", u64::MAX);
        let secs = a.u64("secs", 3600);
        let only = a.get("only").map(|v| v.parse::<u64>().unwrap());
        let max_cases = only.map(|o| o + 1).unwrap_or(max_cases);
        let mut odo = Odo::new(shard, nshards);
        let mut idx: u64 = 0;
        let mut complete = true;
        loop {
            let case = format!("exh:{depth}:{shard}/{nshards}:{idx}{}", if d.ooc { ":o" } else { "" });
            if idx % 256 == 0 || only.is_some() {
                vharness::out::journal(&case);
            }
            d.begin(case);
            let st = odo.choose(ops::N_STARTS);
            ops::start_state(d, st);
            d.check_all();
            let mut n = 0;
            while n < depth && !d.failed && !odo.skip() {
                if d.pool.is_empty() {
                    break;
                }
                ops::step(d, &mut odo, false);
                n += 1;
            }
            if odo.skip() {
                d.failed = true; // abandon silently
                d.finish(&mut odo, false);
                d.failed = false;
            } else {
                if !d.failed && d.obs.samples.len() < d.obs.max_samples && idx % 997 == 0 {
                    d.sample_trace();
                }
                d.finish(&mut odo, true);
                d.obs.inc("histories");
                d.obs.add("ops", n as u64);
                idx += 1;
            }
            if odo.nondet {
                d.obs.inc("odometer_nondeterminism");
                odo.nondet = false;
            }
            if !odo.next() {
                break;
            }
            if idx >= max_cases || (idx % 64 == 0 && t0.elapsed().as_secs() >= secs) {
                complete = false;
                break;
            }
        }
        d.obs.add("exh_complete", complete as u64);
        d.obs.add("exh_depth", depth as u64);
    }
}
