//! E3: Buf / BufMut conformance, getter table, adapters, fault injection. See DESIGN.md §3.3.
//!
//! bufconf readers --seed S --shard I --nshards N --count K      random trees x random op sequences (C09, C12)
//! bufconf frag    --shard I --nshards N [--maxlen 6]            exhaustive fragmentations x all <=2-op sequences (C09, C12)
//! bufconf getters --shard I --nshards N [--deep]                exhaustive getter table (C10)
//! bufconf writers --seed S --shard I --nshards N --count K      writer trees (C11, C12)
//! bufconf faults  --seed S --shard I --nshards N --count K      lying / panicking trait impls (C17)
use vharness::bufx::getters::{self, End, Ty, PATHS};
use vharness::bufx::rd::{self, Final, ROp};
use vharness::bufx::{self, Spec, BX};
use vharness::out::Obs;
use vharness::rng::{mix2, Rng};
use vharness::util::{self, catch, Args};

fn readers(a: &Args, o: &mut Obs) {
    let seed = a.u64("seed", 1);
    let shard = a.usize("shard", 0);
    let nshards = a.usize("nshards", 1).max(1);
    let count = a.usize("count", 1000);
    let only = a.get("only").map(|v| v.parse::<usize>().unwrap());
    let secs = a.u64("secs", u64::MAX);
    let t0 = std::time::Instant::now();
    for c in 0..count {
        let g = shard + c * nshards;
        if only.map(|x| x != g).unwrap_or(false) {
            continue;
        }
        if c % 256 == 0 && t0.elapsed().as_secs() >= secs {
            // time cap (thorough tier): stop here, the evidence counts what was actually run
            o.add("time_capped_shards", 1);
            break;
        }
        let case = format!("rd:{seed}:{g}");
        if c % 64 == 0 || only.is_some() {
            vharness::out::journal(&case);
        }
        let mut r = Rng::new(mix2(seed, g as u64));
        let n = match r.below(8) {
            0 => 0,
            1 => 1,
            2 => 40 + r.below(60),
            _ => r.below(24),
        };
        let depth = r.below(5);
        let mut salt = mix2(seed, g as u64 ^ 0xABCD);
        let spec = bufx::rd::gen_tree(&mut r, depth, n, &mut salt);
        let nops = 1 + r.below(6);
        let is_take = matches!(spec, Spec::Take(..));
        let mut ops = Vec::new();
        // plan ops against the predicted remaining length (set_limit makes it approximate, which is fine)
        let mut rest = spec.model().len();
        for _ in 0..nops {
            let op = rd::gen_op(&mut r, rest, is_take);
            match &op {
                ROp::Adv(k) | ROp::CopySlice(k) | ROp::CopyBytes(k) => rest = rest.saturating_sub(*k),
                ROp::TryCopySlice(k) if *k <= rest => rest -= *k,
                ROp::GetU8 => rest = rest.saturating_sub(1),
                ROp::GetU32Le => rest = rest.saturating_sub(4),
                _ => {}
            }
            ops.push(op);
        }
        let fin = match r.below(7) {
            0 => Final::IntoIter,
            1 => Final::ReaderRead(r.below(rest + 4)),
            2 => Final::ReaderBufRead(r.below(rest + 2)),
            3 => Final::ReaderToEnd,
            4 => Final::ReaderExact(r.below(rest + 2)),
            _ => Final::Dismantle,
        };
        let path = r.below(3);
        if c % 97 == 0 {
            o.sample(format!("{case}: tree={} model_len={} ops={:?} path={} fin={:?}", spec.shape(), spec.model().len(), ops, PATHS[path], fin));
        }
        o.cell(format!("tree|depth{}|{}", spec.depth(), spec.shape().split('(').next().unwrap_or("")));
        let h = rd::run_case(o, &spec, &ops, path, fin, &case);
        if a.flag("digest") {
            println!("DIGEST rd {g} {h:016x}");
        }
    }
}

fn small_ops(n: usize, is_take: bool) -> Vec<ROp> {
    let mut v = vec![ROp::TryCopySlice(n / 2), ROp::TryCopySlice(n + 1), ROp::Chunk, ROp::Adv(0), ROp::Adv(1), ROp::Adv(n / 2), ROp::Adv(n), ROp::Adv(n + 1), ROp::Vect(0), ROp::Vect(1), ROp::Vect(2), ROp::Vect(17), ROp::CopySlice(n / 2 + 1), ROp::CopySlice(n), ROp::CopyBytes(1), ROp::CopyBytes(n), ROp::CopyBytes(n + 1), ROp::GetU8, ROp::GetU32Le];
    if is_take {
        v.push(ROp::SetLimit(1));
        v.push(ROp::SetLimit(n + 2));
    }
    v
}

/// `io::Cursor` as a `Buf`: every data length 0..=4 x every interesting position (inside, at the end, beyond it,
/// around 2^32, 2^63 and u64::MAX -- positions that do not fit usize on a 32-bit target) x bare / under Take /
/// inside Chain x single ops with ordinary and near-usize::MAX counts x call path.
fn cursors(a: &Args, o: &mut Obs) {
    let shard = a.usize("shard", 0);
    let nshards = a.usize("nshards", 1).max(1);
    let mut idx = 0usize;
    for n in 0..=4usize {
        let v = rd::data(n, 41 + n as u64);
        let mut pos: Vec<u64> = (0..=n as u64 + 2).collect();
        for base in [1u64 << 32, 1u64 << 33, 1u64 << 63, 3u64 << 32] {
            for k in 0..=n as u64 + 1 {
                pos.push(base + k);
            }
            pos.push(base - 1);
        }
        pos.extend([u32::MAX as u64 - 1, u32::MAX as u64, u64::MAX - 1, u64::MAX, u64::MAX - n as u64, i64::MAX as u64]);
        for &p in &pos {
            let leaf = Spec::Cursor(p, v.clone());
            let m = leaf.model().len();
            let wrappers: Vec<Spec> = vec![
                leaf.clone(),
                Spec::Take(m + 1, false, Box::new(leaf.clone())),
                Spec::Take(usize::MAX, true, Box::new(leaf.clone())),
                Spec::Chain(false, Box::new(leaf.clone()), Box::new(Spec::Slice(vec![9, 8]))),
                Spec::Chain(true, Box::new(Spec::Slice(vec![7])), Box::new(leaf.clone())),
            ];
            for (wi, spec) in wrappers.iter().enumerate() {
                idx += 1;
                if idx % nshards != shard {
                    continue;
                }
                let case = format!("curs:{n}:{p}:{wi}");
                vharness::out::journal(&case);
                let ml = spec.model().len();
                let is_take = matches!(spec, Spec::Take(..));
                let mut ops = small_ops(ml, is_take);
                for h in [usize::MAX, usize::MAX - 1, usize::MAX - ml, usize::MAX - p.min(64) as usize, usize::MAX / 2 + 1, usize::MAX / 2] {
                    ops.push(ROp::Adv(h));
                    ops.push(ROp::CopyBytes(h));
                }
                let pc = if p <= n as u64 { "in" } else if p < (1 << 32) { "past" } else { "beyond-u32" };
                o.cell(format!("curs|len{n}|{pc}|w{wi}"));
                let mut dg = 0u64;
                for (i, op1) in ops.iter().enumerate() {
                    // a first op that moves the cursor, then the op under test
                    for pre in [None, Some(ROp::Adv(1.min(ml))), Some(ROp::GetU8)] {
                        if pre.is_some() && ml == 0 {
                            continue;
                        }
                        let seq: Vec<ROp> = pre.iter().cloned().chain(std::iter::once(op1.clone())).collect();
                        let fin = if i % 4 == 0 { Final::IntoIter } else { Final::Dismantle };
                        let h = rd::run_case(o, spec, &seq, (i + wi) % 3, fin, &case);
                        dg = vharness::rng::fnv_u64(dg, h);
                    }
                }
                if a.flag("digest") {
                    println!("DIGEST curs {n}:{p}:{wi} {dg:016x}");
                }
            }
        }
    }
}

/// `BytesMut` as a `Buf` across the front offset at which the inline representation no longer fits its pointer-tag bits
/// (`usize::MAX >> 5`): only reachable on a 32-bit target (Miri i686) with a buffer above 128 MiB. The cursor laws
/// must hold for the advance that crosses that mark, bare and through Take / Chain / `&mut`.
fn bigadv(a: &Args, o: &mut Obs) {
    use bytes::{Buf, BytesMut};
    let mark = (u32::MAX >> 5) as usize; // 2^27 - 1: the 32-bit limit of the offset bits
    let n = mark + 4096 + a.usize("extra", 0);
    let tail = 48usize;
    let which = a.usize("shard", 0);
    for w in 0..4usize {
        if a.get("nshards").is_some() && w != which % 4 {
            continue;
        }
        let case = format!("bigadv:{w}");
        vharness::out::journal(&case);
        let mut m = BytesMut::zeroed(n);
        for i in 0..tail {
            m[n - tail + i] = (i as u8).wrapping_mul(5).wrapping_add(1);
        }
        let want_tail: Vec<u8> = m[n - tail..].to_vec();
        let steps = [mark - 7, 3, 10, 4096 - 6 - tail - 8, 8];
        let mut left = n;
        let mut bad: Option<String> = None;
        let check = |b: &dyn Buf, left: usize, what: &str| -> Option<String> {
            if b.remaining() != left {
                return Some(format!("{what}: remaining()={} expected {left}", b.remaining()));
            }
            if b.chunk().len() != left {
                return Some(format!("{what}: chunk().len()={} expected {left}", b.chunk().len()));
            }
            None
        };
        match w {
            0 => {
                for (i, &k) in steps.iter().enumerate() {
                    m.advance(k);
                    left -= k;
                    bad = bad.or(check(&m, left, &format!("bare BytesMut after advance #{i} ({k})")));
                }
                if m[..] != want_tail[..] {
                    bad = bad.or(Some("bare BytesMut: the bytes left after the advances are not the tail of the buffer".into()));
                }
            }
            1 => {
                let mut t = m.take(usize::MAX);
                for (i, &k) in steps.iter().enumerate() {
                    t.advance(k);
                    left -= k;
                    bad = bad.or(check(&t, left, &format!("Take(BytesMut) after advance #{i} ({k})")));
                }
                if t.get_ref()[..] != want_tail[..] {
                    bad = bad.or(Some("Take(BytesMut): wrong bytes left".into()));
                }
            }
            2 => {
                let mut c = m.chain(&b"xy"[..]);
                for (i, &k) in steps.iter().enumerate() {
                    c.advance(k);
                    left -= k;
                    if c.remaining() != left + 2 || c.chunk().len() != left {
                        bad = bad.or(Some(format!("Chain(BytesMut, slice) after advance #{i} ({k}): remaining()={} chunk().len()={} expected {} / {left}", c.remaining(), c.chunk().len(), left + 2)));
                    }
                }
                let mut out = vec![0u8; tail];
                c.copy_to_slice(&mut out);
                if out != want_tail || c.remaining() != 2 {
                    bad = bad.or(Some("Chain(BytesMut, slice): copy_to_slice after the advances returned the wrong bytes".into()));
                }
            }
            _ => {
                let r: &mut BytesMut = &mut m;
                let mut rr = r;
                for (i, &k) in steps.iter().enumerate() {
                    Buf::advance(&mut rr, k);
                    left -= k;
                    bad = bad.or(check(&rr, left, &format!("&mut BytesMut after advance #{i} ({k})")));
                }
                let got = Buf::copy_to_bytes(&mut rr, tail);
                if got[..] != want_tail[..] {
                    bad = bad.or(Some("&mut BytesMut: copy_to_bytes after the advances returned the wrong bytes".into()));
                }
            }
        }
        o.inc("cases");
        o.inc("bigadv_cases");
        o.add("steps", steps.len() as u64);
        o.cell(format!("bigadv|w{w}|{}", if cfg!(target_pointer_width = "32") { "32bit-crosses-mark" } else { "64bit" }));
        if let Some(d) = bad {
            o.viol("C09", "advance-across-offset-limit", &case, &format!("{d} (buffer of {n} bytes, mark {mark})"));
        }
    }
    o.sample(format!("bigadv: BytesMut::zeroed({n}) advanced by {:?} (the third advance crosses 2^27-1), bare / Take / Chain / &mut", [mark - 7, 3, 10]));
}

fn frag(a: &Args, o: &mut Obs) {
    let shard = a.usize("shard", 0);
    let nshards = a.usize("nshards", 1).max(1);
    let maxlen = a.usize("maxlen", 6);
    let mut idx = 0usize;
    for n in 0..=maxlen {
        let d = rd::data(n, 7 + n as u64);
        let frs = rd::fragmentations(&d);
        for (fi, parts) in frs.iter().enumerate() {
            for kind in 0..3u8 {
                let seg = Spec::Seg(kind, parts.clone());
                let tail = rd::data(2, 1234);
                let wrappers: Vec<Spec> = vec![
                    seg.clone(),
                    Spec::Take(n.saturating_sub(1), false, Box::new(seg.clone())),
                    Spec::Take(n, true, Box::new(seg.clone())),
                    Spec::Take(n + 1, false, Box::new(seg.clone())),
                    Spec::Chain(false, Box::new(seg.clone()), Box::new(Spec::Slice(tail.clone()))),
                    Spec::Chain(true, Box::new(Spec::Bytes(2, tail.clone())), Box::new(seg.clone())),
                    Spec::Take(n + 1, false, Box::new(Spec::Chain(false, Box::new(seg.clone()), Box::new(Spec::Slice(tail.clone()))))),
                ];
                for (wi, spec) in wrappers.iter().enumerate() {
                    idx += 1;
                    if idx % nshards != shard {
                        continue;
                    }
                    let case = format!("frag:{n}:{fi}:{kind}:{wi}");
                    if idx % 512 == shard {
                        vharness::out::journal(&case);
                    }
                    let m = spec.model().len();
                    let is_take = matches!(spec, Spec::Take(..));
                    let ops1 = small_ops(m, is_take);
                    o.cell(format!("frag|len{n}|chunks{}|kind{kind}|w{wi}", parts.len().min(4)));
                    let mut cdg = 0u64;
                    for (i, op1) in ops1.iter().enumerate() {
                        let used = match op1 {
                            ROp::Adv(k) | ROp::CopySlice(k) | ROp::CopyBytes(k) => *k,
                            ROp::TryCopySlice(k) if *k <= m => *k,
                            ROp::GetU8 => 1,
                            ROp::GetU32Le => 4,
                            _ => 0,
                        };
                        let left = m.saturating_sub(used);
                        let ops2 = small_ops(left, is_take);
                        for (j, op2) in ops2.iter().enumerate() {
                            let path = (i + j + wi) % 3;
                            let fin = if (i + j) % 5 == 0 { Final::IntoIter } else { Final::Dismantle };
                            let h = rd::run_case(o, spec, &[op1.clone(), op2.clone()], path, fin, &case);
                            cdg = vharness::rng::fnv_u64(cdg, h);
                        }
                    }
                    if a.flag("digest") {
                        println!("DIGEST frag {n}:{fi}:{kind}:{wi} {cdg:016x}");
                    }
                    if idx % 4001 == shard {
                        o.sample(format!("{case}: tree={} parts={:?} with every pair of ops from {:?}", spec.shape(), parts, ops1));
                    }
                }
            }
        }
    }
    o.add("frag_complete", 1);
}

// ------------------------------------------------------------------ C10

fn implementors(bytes: &[u8], cut1: usize, cut2: Option<usize>, extra_tail: &[u8]) -> Vec<(&'static str, Spec)> {
    // `bytes` (+ extra_tail) is the logical sequence; cuts are chunk boundaries inside it
    let mut all = bytes.to_vec();
    all.extend_from_slice(extra_tail);
    let n = all.len();
    let c1 = cut1.min(n);
    let mut parts = vec![all[..c1].to_vec()];
    match cut2 {
        Some(c2) if c2 > c1 && c2 <= n => {
            parts.push(all[c1..c2].to_vec());
            parts.push(all[c2..].to_vec());
        }
        _ => parts.push(all[c1..].to_vec()),
    }
    let seg = |k: u8| Spec::Seg(k, parts.clone());
    let mut extra: Vec<(&'static str, Spec)> = Vec::new();
    if n == 0 {
        // an io::Cursor positioned strictly beyond its data holds nothing
        extra.push(("CursorPast", Spec::Cursor(5, vec![0xAA; 2])));
        extra.push(("CursorPastEmpty", Spec::Cursor(1, Vec::new())));
        extra.push(("CursorMax", Spec::Cursor(u64::MAX, vec![0xAA; 2])));
        extra.push(("CursorWrap32", Spec::Cursor((1u64 << 32) + 1, vec![0xAA; 24])));
    }
    let mut v = vec![
        ("slice", Spec::Slice(all.clone())),
        ("Bytes", Spec::Bytes(c1 % 5, all.clone())),
        ("BytesMut", Spec::BytesMut(c1 % 3, all.clone())),
        ("Cursor", {
            let mut v = vec![0xAA; 2];
            v.extend_from_slice(&all);
            Spec::Cursor(2, v)
        }),
        ("Deque", Spec::Deque(n - c1, all.clone())),
        ("Seg", seg(2)),
        ("Chain", Spec::Chain(false, Box::new(Spec::Slice(all[..c1].to_vec())), Box::new(Spec::Bytes(1, all[c1..].to_vec())))),
        ("ChainSeg", Spec::Chain(true, Box::new(seg(0)), Box::new(Spec::Slice(Vec::new())))),
        ("Take", Spec::Take(n, false, Box::new(Spec::Chain(false, Box::new(seg(1)), Box::new(Spec::Slice(vec![0x55; 3])))))),
        // every byte in a chunk of its own (with an empty chunk in between): values spread over up to 16 chunks
        ("SegBytes", {
            let mut ps: Vec<Vec<u8>> = Vec::new();
            for (i, &x) in all.iter().enumerate() {
                if i == c1 {
                    ps.push(Vec::new());
                }
                ps.push(vec![x]);
            }
            Spec::Seg((c1 % 3) as u8, ps)
        }),
        // the value is followed by a practically endless source: the length arithmetic of Chain saturates
        ("TakeChainEndless", Spec::Take(n, false, Box::new(Spec::Chain(false, Box::new(Spec::Slice(all.clone())), Box::new(Spec::Endless))))),
    ];
    v.extend(extra);
    v
}

#[allow(clippy::too_many_arguments)]
fn getter_case(o: &mut Obs, row: &getters::Row, path: usize, iname: &str, spec: &Spec, nbytes: usize, avail: usize, case: &str) -> u64 {
    let mut dg = 0u64;
    // spec denotes `avail` bytes; the getter needs `w`
    let w = if row.width == 0 { nbytes } else { row.width };
    let model = spec.model();
    debug_assert_eq!(model.len(), avail);
    let sig_base = format!("{}:{}", row.name, if row.width == 0 { format!("nbytes{nbytes}") } else { "fixed".into() });
    for which in 0..2 {
        // 0 = get_X, 1 = try_get_X
        let mut b: BX = bufx::build(spec);
        o.inc("getter_calls");
        let name = if which == 0 { row.name } else { row.try_name };
        let sig = format!("{}:{}", name, sig_base.split(':').nth(1).unwrap_or(""));
        let ctx = || format!("{name}({}) via {} on {iname} tree={} avail={avail} bytes={:?}", if row.width == 0 { nbytes.to_string() } else { String::new() }, PATHS[path], spec.shape(), &model[..model.len().min(20)]);
        if row.width == 0 && nbytes > 8 {
            // must be rejected
            let r = if which == 0 { catch(|| (row.get[path])(&mut b, nbytes)).map(|_| ()) } else { catch(|| (row.try_get[path])(&mut b, nbytes)).map(|_| ()) };
            dg = vharness::rng::fnv_u64(dg, r.is_ok() as u64 + 10);
            if r.is_ok() {
                o.viol("C10", &format!("{sig}:nbytes>8-accepted"), case, &format!("{} accepted nbytes={nbytes}", ctx()));
            }
            continue;
        }
        let want = if avail >= w { Some(getters::reference(&model[..w], row.end, row.ty)) } else { None };
        if which == 0 {
            let r = catch(|| (row.get[path])(&mut b, nbytes));
            dg = vharness::rng::fnv_u64(dg, match &r {
                Ok(v) => (*v as u64) ^ ((*v >> 64) as u64) ^ 0x11,
                Err(_) => 0x22,
            });
            dg = vharness::rng::fnv_u64(dg, catch(|| b.remaining()).unwrap_or(0) as u64);
            match (r, want) {
                (Ok(v), Some(wv)) => {
                    if v != wv {
                        o.viol("C10", &format!("{sig}:value"), case, &format!("{} returned {v:#x}, reference decode {wv:#x}", ctx()));
                    } else if b.remaining() != avail - w {
                        o.viol("C10", &format!("{sig}:advance"), case, &format!("{} advanced by {} instead of {w}", ctx(), avail - b.remaining()));
                    } else {
                        let rest = bufx::drain_all(&mut *b);
                        if rest != model[w..] {
                            o.viol("C10", &format!("{sig}:rest"), case, &format!("{} left {:?} behind, expected {:?}", ctx(), rest, &model[w..]));
                        }
                    }
                }
                (Err(e), Some(_)) => o.viol("C10", &format!("{sig}:panic-with-enough"), case, &format!("{} panicked although enough bytes remain: {e}", ctx())),
                (Ok(v), None) => o.viol("C10", &format!("{sig}:no-panic-short"), case, &format!("{} returned {v:#x} although only {avail} of {w} bytes remain", ctx())),
                (Err(_), None) => {}
            }
        } else {
            let r = catch(|| (row.try_get[path])(&mut b, nbytes));
            dg = vharness::rng::fnv_u64(dg, match &r {
                Ok(Ok(v)) => (*v as u64) ^ ((*v >> 64) as u64) ^ 0x33,
                Ok(Err(e)) => (e.requested as u64) << 32 | e.available as u64 | 1 << 63,
                Err(_) => 0x44,
            });
            dg = vharness::rng::fnv_u64(dg, catch(|| b.remaining()).unwrap_or(0) as u64);
            match (r, want) {
                (Ok(Ok(v)), Some(wv)) => {
                    if v != wv {
                        o.viol("C10", &format!("{sig}:value"), case, &format!("{} returned Ok({v:#x}), reference decode {wv:#x}", ctx()));
                    } else if b.remaining() != avail - w {
                        o.viol("C10", &format!("{sig}:advance"), case, &format!("{} advanced by {} instead of {w}", ctx(), avail - b.remaining()));
                    }
                }
                (Ok(Err(e)), Some(_)) => o.viol("C10", &format!("{sig}:err-with-enough"), case, &format!("{} returned Err({e:?}) although enough bytes remain", ctx())),
                (Ok(Ok(v)), None) => o.viol("C10", &format!("{sig}:ok-short"), case, &format!("{} returned Ok({v:#x}) although only {avail} of {w} bytes remain", ctx())),
                (Ok(Err(e)), None) => {
                    if e.requested != w || e.available != avail {
                        o.viol("C10", &format!("{sig}:err-fields"), case, &format!("{} returned {e:?}, expected requested={w} available={avail}", ctx()));
                    } else {
                        let rest = bufx::drain_all(&mut *b);
                        if rest != model {
                            o.viol("C10", &format!("{sig}:err-moved-cursor"), case, &format!("{} returned Err but consumed bytes", ctx()));
                        }
                    }
                }
                (Err(e), _) => o.viol("C10", &format!("{sig}:try-panicked"), case, &format!("{} panicked: {e}", ctx())),
            }
        }
    }
    dg
}

fn getters_tbl(a: &Args, o: &mut Obs) {
    let shard = a.usize("shard", 0);
    let nshards = a.usize("nshards", 1).max(1);
    let deep = a.flag("deep");
    let digest = a.flag("digest");
    let rows_filter = a.usize("max-rows", usize::MAX);
    // `--only-ne --lite`: the native-endian rows with a reduced set of implementors / patterns / paths, small
    // enough to be interpreted completely for a big-endian target (their big-endian arms run nowhere else)
    let only_ne = a.flag("only-ne");
    let lite = a.flag("lite");
    let rows = getters::rows();
    let mut idx = 0usize;
    for (ri, row) in rows.iter().enumerate().take(rows_filter) {
        if only_ne && row.end != End::Ne {
            continue;
        }
        let nb_range: Vec<usize> = if row.width == 0 { (0..=9).collect() } else { vec![0] };
        for &nbytes in &nb_range {
            let w = if row.width == 0 { nbytes.min(8) } else { row.width };
            for (pi, pat) in getters::patterns(w, (ri * 31 + nbytes) as u64).iter().enumerate() {
                if lite && ((w > 0 && !(pi == 4 || pi == 5)) || (w == 0 && pi != 0)) {
                    continue;
                }
                idx += 1;
                if idx % nshards != shard {
                    continue;
                }
                let case = format!("tbl:get:{}:{nbytes}:{pi}", row.name);
                vharness::out::journal(&case);
                let mut rowdg = 0u64;
                let endn = match row.end {
                    End::Be => "be",
                    End::Le => "le",
                    End::Ne => "ne",
                };
                let tyn = match row.ty {
                    Ty::U => "u",
                    Ty::I => "i",
                    Ty::F => "f",
                };
                // (1) enough bytes, every position of one chunk boundary (and a second one for w >= 4)
                for cut in 0..=w + 1 {
                    let cut2s: Vec<Option<usize>> = if w >= 4 && (deep || cut % 3 == 1) { (cut + 1..=w).map(Some).chain([None]).collect() } else { vec![None] };
                    for cut2 in cut2s {
                        for (iname, spec) in implementors(pat, cut, cut2, &[0xC3, 0x3C]) {
                            if lite && !matches!(iname, "slice" | "Chain" | "SegBytes") {
                                continue;
                            }
                            for path in 0..3 {
                                if lite && path != (cut + pi) % 3 {
                                    continue;
                                }
                                rowdg = vharness::rng::fnv_u64(rowdg, getter_case(o, row, path, iname, &spec, nbytes, w + 2, &case));
                                o.cell(format!("get|{}{}{}|w{w}|{iname}|{}|cut{}", tyn, if row.width == 0 { "var" } else { "" }, endn, PATHS[path], if cut == 0 || cut > w { "outside" } else if cut2.is_some() { "two-inside" } else { "inside" }));
                            }
                        }
                    }
                }
                // exactly enough bytes (nothing behind the value)
                for (iname, spec) in implementors(pat, w / 2, None, &[]) {
                    if lite && !matches!(iname, "slice" | "SegBytes") {
                        continue;
                    }
                    rowdg = vharness::rng::fnv_u64(rowdg, getter_case(o, row, pi % 3, iname, &spec, nbytes, w, &case));
                }
                // (2) every shortfall, boundary before / inside the available bytes
                for avail in 0..w {
                    if lite && avail + 1 != w {
                        continue;
                    }
                    for cut in [0, avail / 2, avail] {
                        if lite && cut != avail / 2 {
                            continue;
                        }
                        for (iname, spec) in implementors(&pat[..avail], cut, None, &[]) {
                            if lite && !matches!(iname, "slice" | "Chain") {
                                continue;
                            }
                            let path = (avail + cut + pi) % 3;
                            rowdg = vharness::rng::fnv_u64(rowdg, getter_case(o, row, path, iname, &spec, nbytes, avail, &case));
                            o.cell(format!("get|{}{}{}|w{w}|{iname}|short", tyn, if row.width == 0 { "var" } else { "" }, endn));
                        }
                    }
                }
                o.inc("table_rows");
                if digest {
                    println!("DIGEST get {}:{nbytes}:{pi} {rowdg:016x}", row.name);
                }
            }
        }
    }
    o.add("getter_methods", 2 * rows.len() as u64);
    o.sample("row get_int_le/try_get_int_le nbytes=3 pattern [00 00 80]: implementors slice, Bytes, BytesMut, Cursor, VecDeque(wrapped), Seg(default vectored), Chain(slice,Bytes), Chain(&mut Seg, slice), Take(Chain(SegMulti,slice)); chunk boundary at every offset 0..=4 (two boundaries for widths >= 4); through dyn, &mut T and Box<T>; then every shortfall 0..2 bytes available");
}

fn main() {
    let a = Args::parse();
    util::silence_panics();
    util::apply_parity(&a);
    let mut o = Obs::new();
    match a.mode.as_str() {
        "readers" => readers(&a, &mut o),
        "frag" => frag(&a, &mut o),
        "cursors" => cursors(&a, &mut o),
        "bigadv" => bigadv(&a, &mut o),
        "getters" => getters_tbl(&a, &mut o),
        "writers" => vharness::bufx::wrt::writers(&a, &mut o),
        "putters" => vharness::bufx::wrt::putters(&a, &mut o),
        "faults" => vharness::bufx::faults::faults(&a, &mut o),
        m => {
            eprintln!("unknown mode {m}");
            std::process::exit(2);
        }
    }
    o.finish();
}
