//! E4: comparison / hash tables (C14) and Debug / hex / serde round trips (C15).
//!
//! cmpfmt cmp   [--seed S] [--shard I --nshards N] [--random K]
//! cmpfmt fmt   [--seed S] [--shard I --nshards N] [--random K]
//! cmpfmt serde [--seed S] [--shard I --nshards N] [--random K]      (feature serde)
use bytes::{Buf, Bytes, BytesMut};
use std::cmp::Ordering;
use std::collections::hash_map::DefaultHasher;
use std::hash::{Hash, Hasher};
use vharness::out::Obs;
use vharness::rng::{mix2, Rng};
use vharness::util::{self, Args};

// ------------------------------------------------------------------ representations

pub const NB: usize = 6;
pub const NM: usize = 4;
static PAD: [u8; 8] = *b"\x01pad\xffxyz";

fn mk_bytes(rep: usize, x: &[u8]) -> Bytes {
    match rep % NB {
        0 => Bytes::from_static(Box::leak(x.to_vec().into_boxed_slice())),
        1 => {
            let mut v = Vec::with_capacity(x.len());
            v.extend_from_slice(x);
            Bytes::from(v) // promotable (even or odd depending on the allocator)
        }
        2 => {
            let mut v = Vec::with_capacity(x.len() + 3);
            v.extend_from_slice(x);
            Bytes::from(v) // shared
        }
        3 => {
            // a view into a larger shared buffer
            let mut v = PAD[..3].to_vec();
            v.extend_from_slice(x);
            v.extend_from_slice(&PAD[3..]);
            let b = Bytes::from(v);
            b.slice(3..3 + x.len())
        }
        4 => Bytes::from_owner(x.to_vec()),
        _ => {
            let mut m = BytesMut::with_capacity(x.len() + 9);
            m.extend_from_slice(&PAD[..2]);
            m.extend_from_slice(x);
            m.advance(2);
            m.freeze()
        }
    }
}

fn mk_mut(rep: usize, x: &[u8]) -> BytesMut {
    match rep % NM {
        0 => BytesMut::from(x),
        1 => {
            let mut m = BytesMut::with_capacity(x.len() + 16);
            m.extend_from_slice(&PAD[..4]);
            m.extend_from_slice(x);
            m.advance(4); // inline-Vec with front offset
            m
        }
        2 => {
            let mut m = BytesMut::with_capacity(x.len() + 8);
            m.extend_from_slice(&PAD[..2]);
            m.extend_from_slice(x);
            m.extend_from_slice(&PAD[..2]);
            let _head = m.split_to(2);
            let _tail = m.split_off(x.len()); // shared form, neighbours dropped
            m
        }
        _ => mk_bytes(2, x).try_into_mut().unwrap(),
    }
}

// ------------------------------------------------------------------ C14

struct Cmp<'a> {
    o: &'a mut Obs,
    x: &'a [u8],
    y: &'a [u8],
    case: String,
}

fn rel(x: &[u8], y: &[u8]) -> &'static str {
    match x.cmp(y) {
        Ordering::Equal => "eq",
        Ordering::Less => {
            if y.starts_with(x) {
                "lt-prefix"
            } else {
                "lt"
            }
        }
        Ordering::Greater => {
            if x.starts_with(y) {
                "gt-prefix"
            } else {
                "gt"
            }
        }
    }
}

impl Cmp<'_> {
    fn eqs(&mut self, name: &str, eq: bool, ne: bool) {
        self.o.add("comparisons", 2);
        self.o.cell(format!("cmp|{name}|eq|{}", rel(self.x, self.y)));
        let want = self.x == self.y;
        if eq != want {
            self.bad(name, "==", format!("{eq}"), format!("{want}"));
        }
        if ne == want {
            self.bad(name, "!=", format!("{ne}"), format!("{}", !want));
        }
    }
    #[allow(clippy::too_many_arguments)]
    fn ords(&mut self, name: &str, lt: bool, le: bool, gt: bool, ge: bool, pc: Option<Ordering>) {
        self.o.add("comparisons", 5);
        self.o.cell(format!("cmp|{name}|ord|{}", rel(self.x, self.y)));
        let w = self.x.cmp(self.y);
        if pc != Some(w) {
            self.bad(name, "partial_cmp", format!("{pc:?}"), format!("{:?}", Some(w)));
        }
        if lt != (w == Ordering::Less) {
            self.bad(name, "<", format!("{lt}"), format!("{}", w == Ordering::Less));
        }
        if le != (w != Ordering::Greater) {
            self.bad(name, "<=", format!("{le}"), format!("{}", w != Ordering::Greater));
        }
        if gt != (w == Ordering::Greater) {
            self.bad(name, ">", format!("{gt}"), format!("{}", w == Ordering::Greater));
        }
        if ge != (w != Ordering::Less) {
            self.bad(name, ">=", format!("{ge}"), format!("{}", w != Ordering::Less));
        }
    }
    fn bad(&mut self, name: &str, op: &str, got: String, want: String) {
        let d = format!("impl ({name}) operator {op}: lhs={:?} rhs={:?} got {got} want {want}", Bytes::copy_from_slice(self.x), Bytes::copy_from_slice(self.y));
        let case = self.case.clone();
        self.o.viol("C14", &format!("cmp:{name}:{op}"), &case, &d);
    }
}

macro_rules! both {
    ($c:expr, $name:expr, $l:expr, $r:expr) => {{
        $c.eqs($name, $l == $r, $l != $r);
        $c.ords($name, $l < $r, $l <= $r, $l > $r, $l >= $r, PartialOrd::partial_cmp(&$l, &$r));
    }};
}
macro_rules! eq_only {
    ($c:expr, $name:expr, $l:expr, $r:expr) => {{
        $c.eqs($name, $l == $r, $l != $r);
    }};
}

fn hash_of<T: Hash + ?Sized>(t: &T) -> u64 {
    let mut h = DefaultHasher::new();
    t.hash(&mut h);
    h.finish()
}

/// A `Hasher` that keeps the write_* calls apart (FNV over (method tag, bytes)): `Borrow<[u8]>`-keyed maps are
/// generic over the hasher, so the agreement with the slice's hash must not depend on `write_usize`,
/// `write_u64` and `write` being folded the same way (they are by SipHash on 64-bit targets, not on 32-bit ones).
struct TraceHasher(u64);
impl TraceHasher {
    fn feed(&mut self, tag: u8, b: &[u8]) {
        self.0 = (self.0 ^ tag as u64).wrapping_mul(0x100000001b3);
        for &x in b {
            self.0 = (self.0 ^ x as u64).wrapping_mul(0x100000001b3);
        }
        self.0 = (self.0 ^ 0xff ^ b.len() as u64).wrapping_mul(0x100000001b3);
    }
}
impl Hasher for TraceHasher {
    fn finish(&self) -> u64 {
        self.0
    }
    fn write(&mut self, b: &[u8]) {
        self.feed(1, b)
    }
    fn write_u8(&mut self, i: u8) {
        self.feed(2, &[i])
    }
    fn write_u32(&mut self, i: u32) {
        self.feed(3, &i.to_le_bytes())
    }
    fn write_u64(&mut self, i: u64) {
        self.feed(4, &i.to_le_bytes())
    }
    fn write_usize(&mut self, i: usize) {
        self.feed(5, &(i as u64).to_le_bytes())
    }
}
fn trace_hash_of<T: Hash + ?Sized>(t: &T) -> u64 {
    let mut h = TraceHasher(0xcbf29ce484222325);
    t.hash(&mut h);
    h.finish()
}

macro_rules! family {
    ($c:expr, $T:literal, $bx:expr, $by:expr, $x:expr, $y:expr, $ux:expr, $uy:expr) => {{
        let bx = &$bx;
        let by = &$by;
        let x: &[u8] = $x;
        let y: &[u8] = $y;
        let vx: Vec<u8> = x.to_vec();
        let vy: Vec<u8> = y.to_vec();
        both!($c, concat!($T, ",", $T), *bx, *by);
        both!($c, concat!($T, ",[u8]"), *bx, *y);
        both!($c, concat!("[u8],", $T), *x, *by);
        both!($c, concat!($T, ",Vec"), *bx, vy);
        both!($c, concat!("Vec,", $T), vx, *by);
        both!($c, concat!($T, ",&[u8]"), *bx, y);
        both!($c, concat!("&[u8],", $T), x, *by);
        both!($c, concat!($T, ",&Vec"), *bx, &vy);
        both!($c, concat!($T, ",&", $T), *bx, by);
        // Ord
        $c.o.add("comparisons", 1);
        if Ord::cmp(bx, by) != x.cmp(y) {
            $c.bad(concat!($T, ",", $T), "cmp", format!("{:?}", Ord::cmp(bx, by)), format!("{:?}", x.cmp(y)));
        }
        // the str-typed operand must be valid UTF-8, the crate-side operand may hold any bytes
        if $uy {
            let sy: &str = std::str::from_utf8(y).unwrap();
            let oy: String = sy.to_string();
            both!($c, concat!($T, ",str"), *bx, *sy);
            both!($c, concat!($T, ",String"), *bx, oy);
            both!($c, concat!($T, ",&str"), *bx, sy);
            both!($c, concat!($T, ",&String"), *bx, &oy);
        }
        if $ux {
            let sx: &str = std::str::from_utf8(x).unwrap();
            let ox: String = sx.to_string();
            both!($c, concat!("str,", $T), *sx, *by);
            both!($c, concat!("String,", $T), ox, *by);
            both!($c, concat!("&str,", $T), sx, *by);
        }
        // Hash == hash of the borrowed slice (Borrow<[u8]> contract)
        $c.o.add("hashes", 1);
        if hash_of(bx) != hash_of(x) {
            $c.bad(concat!($T, " hash"), "hash", format!("{:x}", hash_of(bx)), format!("{:x}", hash_of(x)));
        }
        if trace_hash_of(bx) != trace_hash_of(x) {
            $c.bad(concat!($T, " hash"), "hash-generic-hasher", format!("{:x}", trace_hash_of(bx)), format!("{:x}", trace_hash_of(x)));
        }
        let bor: &[u8] = std::borrow::Borrow::borrow(bx);
        if bor != x {
            $c.bad(concat!($T, " borrow"), "borrow", format!("{:?}", bor), format!("{:?}", x));
        }
    }};
}

fn cmp_pair(o: &mut Obs, x: &[u8], y: &[u8], repx: usize, repy: usize, case: String) {
    let ux = std::str::from_utf8(x).is_ok();
    let uy = std::str::from_utf8(y).is_ok();
    let mut c = Cmp { o, x, y, case };
    let bx = mk_bytes(repx, x);
    let by = mk_bytes(repy, y);
    let mx = mk_mut(repx, x);
    let my = mk_mut(repy, y);
    family!(c, "Bytes", bx, by, x, y, ux, uy);
    family!(c, "BytesMut", mx, my, x, y, ux, uy);
    eq_only!(c, "Bytes,BytesMut", bx, my);
    eq_only!(c, "BytesMut,Bytes", mx, by);
    // aliased operands: both views of ONE buffer (same start address with different lengths, or
    // overlapping windows) -- comparisons must still depend on the bytes only
    if !x.is_empty() || !y.is_empty() {
        if y.starts_with(x) {
            let whole = mk_bytes(repy, y);
            let pre = whole.slice(..x.len());
            family!(c, "Bytes", pre, whole, x, y, ux, uy);
            let mut t = whole.clone();
            t.truncate(x.len());
            family!(c, "Bytes", t, whole, x, y, ux, uy);
            c.o.inc("aliased_pairs");
        }
        if x.starts_with(y) {
            let whole = mk_bytes(repx, x);
            let pre = whole.slice(..y.len());
            family!(c, "Bytes", whole, pre, x, y, ux, uy);
            c.o.inc("aliased_pairs");
        }
        // x ++ y in one buffer, compared as two windows of it
        let mut cat = x.to_vec();
        cat.extend_from_slice(y);
        let both = mk_bytes(repx + 1, &cat);
        let wx = both.slice(..x.len());
        let wy = both.slice(x.len()..);
        family!(c, "Bytes", wx, wy, x, y, ux, uy);
    }
    c.o.inc("pairs");
}

fn universe() -> Vec<Vec<u8>> {
    let alpha = [0x00u8, b'a', b'b', 0x7f];
    let mut u = vec![vec![]];
    for l in 1..=3 {
        let n = 4usize.pow(l as u32);
        for k in 0..n {
            let mut s = Vec::new();
            let mut kk = k;
            for _ in 0..l {
                s.push(alpha[kk % 4]);
                kk /= 4;
            }
            u.push(s);
        }
    }
    u
}

fn run_cmp(a: &Args, o: &mut Obs) {
    let seed = a.u64("seed", 1);
    let shard = a.usize("shard", 0);
    let nshards = a.usize("nshards", 1).max(1);
    let nrand = a.usize("random", 2000);
    let allreps = a.flag("all-reps");
    // `--no-exhaustive`: only the seeded pairs (used for the slices interpreted for other targets under Miri)
    let u = if a.flag("no-exhaustive") { Vec::new() } else { universe() };
    let mut idx = 0usize;
    for (i, x) in u.iter().enumerate() {
        for (j, y) in u.iter().enumerate() {
            idx += 1;
            if idx % nshards != shard {
                continue;
            }
            let case = format!("tbl:cmp:{i}:{j}");
            if allreps {
                for r in 0..NB {
                    cmp_pair(o, x, y, r, (r + j) % NB, case.clone());
                }
            } else {
                cmp_pair(o, x, y, (i + seed as usize) % NB, (j + i + seed as usize) % NB, case);
            }
        }
    }
    o.add("exhaustive_universe", u.len() as u64);
    // random longer pairs: prefixes, equal, one-byte differences, non-UTF-8
    let mut r = Rng::new(mix2(seed, shard as u64 + 77));
    for k in 0..nrand {
        // the reduced (Miri, other targets) mode concentrates on what word-at-a-time code gets wrong: short lengths
        // around the word sizes, one-byte differences at every position, two differences of opposite sense
        let reduced = a.flag("no-exhaustive");
        let n = if reduced { 1 + r.below(26) } else { r.below(40) };
        let mut x: Vec<u8> = (0..n).map(|_| *r.pick(&[0u8, 1, b'a', b'z', 0x7f, 0x80, 0xff, b'"'])).collect();
        let mut y = x.clone();
        let class = if reduced { *r.pick(&[3usize, 3, 3, 3, 5, 5, 5, 0, 1, 2]) } else { r.below(6) };
        match class {
            0 => {}
            5 => {
                // two differing bytes of opposite sense inside one 8-byte block (word-at-a-time comparisons must
                // still order by the FIRST differing byte), after a common prefix of whole words
                if n >= 2 {
                    let p = r.below(n - 1);
                    let q = (p + 1 + r.below(7)).min(n - 1);
                    y[p] = x[p].wrapping_add(1);
                    y[q] = x[q].wrapping_sub(1);
                }
            }
            1 => y.truncate(r.below(n + 1)),
            2 => y.push(r.byte()),
            3 => {
                if n > 0 {
                    let p = r.below(n);
                    y[p] = y[p].wrapping_add(1 + r.byte() % 3);
                }
            }
            _ => y = (0..r.below(40)).map(|_| r.byte()).collect(),
        }
        if r.chance(1, 2) {
            std::mem::swap(&mut x, &mut y);
        }
        let utf8 = std::str::from_utf8(&x).is_ok() && std::str::from_utf8(&y).is_ok();
        // make sure one-sided UTF-8 pairs occur: an ASCII string against arbitrary bytes
        if k % 3 == 0 {
            x = (0..r.below(6)).map(|_| b'a' + r.byte() % 26).collect();
            if r.chance(1, 2) {
                std::mem::swap(&mut x, &mut y);
            }
        }
        if k == 0 {
            o.sample(format!("random pair {:?} vs {:?} utf8={utf8}", Bytes::copy_from_slice(&x), Bytes::copy_from_slice(&y)));
        }
        cmp_pair(o, &x, &y, r.below(NB), r.below(NB), format!("tbl:cmp:rnd:{seed}:{shard}:{k}"));
    }
    o.sample("exhaustive pair (b\"a\\0\", b\"a\") through every impl: Bytes,Bytes Bytes,[u8] [u8],Bytes Bytes,Vec Vec,Bytes Bytes,&[u8] &[u8],Bytes Bytes,&Vec Bytes,&Bytes Bytes,str str,Bytes Bytes,String String,Bytes Bytes,&str &str,Bytes Bytes,&String (same for BytesMut) + Bytes,BytesMut BytesMut,Bytes");
}

// ------------------------------------------------------------------ C15: Debug / hex

/// Independent parser of the Rust byte-string-literal grammar restricted to what a
/// byte string may contain: b" ( printable ASCII except " and \  |  escape )* "
/// escapes: \n \r \t \\ \0 \" \' \xHH.  Returns None if the text is not a valid literal.
fn parse_byte_literal(s: &str) -> Option<Vec<u8>> {
    // The Rust reference grammar of BYTE_STRING_LITERAL:
    //   b" ( ASCII_FOR_STRING | BYTE_ESCAPE | STRING_CONTINUE )* "
    //   ASCII_FOR_STRING = any ASCII (0x00..=0x7F) except `"`, `\` and an isolated CR
    //   BYTE_ESCAPE      = \xHH | \n | \r | \t | \\ | \0 | \' | \"
    //   STRING_CONTINUE  = `\` followed by LF: the LF and all following ' ', \t, \n, \r are skipped
    // (rustc normalises CR LF to LF before lexing, so a raw CR LF denotes LF). Raw control characters other than an
    // isolated CR are therefore legal and denote themselves; non-ASCII bytes are not.
    let b = s.as_bytes();
    if b.len() < 3 || b[0] != b'b' || b[1] != b'"' || b[b.len() - 1] != b'"' {
        return None;
    }
    let body = &b[2..b.len() - 1];
    let mut out = Vec::new();
    let mut i = 0;
    while i < body.len() {
        let c = body[i];
        if c == b'\\' {
            i += 1;
            let e = *body.get(i)?;
            match e {
                b'n' => out.push(b'\n'),
                b'r' => out.push(b'\r'),
                b't' => out.push(b'\t'),
                b'\\' => out.push(b'\\'),
                b'0' => out.push(0),
                b'"' => out.push(b'"'),
                b'\'' => out.push(b'\''),
                b'x' => {
                    let h = body.get(i + 1..i + 3)?;
                    let hv = |c: u8| -> Option<u8> {
                        match c {
                            b'0'..=b'9' => Some(c - b'0'),
                            b'a'..=b'f' => Some(c - b'a' + 10),
                            b'A'..=b'F' => Some(c - b'A' + 10),
                            _ => None,
                        }
                    };
                    out.push(hv(h[0])? * 16 + hv(h[1])?);
                    i += 2;
                }
                b'\n' | b'\r' => {
                    // line continuation (`\` CR LF counts after normalisation; `\` + isolated CR does not)
                    if e == b'\r' && body.get(i + 1) != Some(&b'\n') {
                        return None;
                    }
                    while i < body.len() && matches!(body[i], b' ' | b'\t' | b'\n' | b'\r') {
                        i += 1;
                    }
                    continue;
                }
                _ => return None,
            }
            i += 1;
        } else if c == b'"' {
            return None; // unescaped quote inside the literal
        } else if c == b'\r' {
            if body.get(i + 1) == Some(&b'\n') {
                out.push(b'\n');
                i += 2;
            } else {
                return None; // isolated CR
            }
        } else if c < 0x80 {
            out.push(c);
            i += 1;
        } else {
            return None; // non-ASCII is not allowed in a byte string literal
        }
    }
    Some(out)
}

fn parse_hex(s: &str, upper: bool) -> Option<Vec<u8>> {
    let b = s.as_bytes();
    if b.len() % 2 != 0 {
        return None;
    }
    let hv = |c: u8| -> Option<u8> {
        match c {
            b'0'..=b'9' => Some(c - b'0'),
            b'a'..=b'f' if !upper => Some(c - b'a' + 10),
            b'A'..=b'F' if upper => Some(c - b'A' + 10),
            _ => None,
        }
    };
    let mut out = Vec::new();
    for p in b.chunks(2) {
        out.push(hv(p[0])? * 16 + hv(p[1])?);
    }
    Some(out)
}

fn fmt_one(o: &mut Obs, x: &[u8], rep: usize, case: &str) {
    let b = mk_bytes(rep, x);
    let m = mk_mut(rep, x);
    let outs = [("Bytes", format!("{:?}", b), format!("{:x}", b), format!("{:X}", b)), ("BytesMut", format!("{:?}", m), format!("{:x}", m), format!("{:X}", m))];
    for (ty, dbg, lx, ux) in outs.iter() {
        o.add("formatted", 3);
        match parse_byte_literal(dbg) {
            Some(v) if v == x => {}
            Some(v) => o.viol("C15", &format!("debug-decodes-differently:{ty}"), case, &format!("Debug of {:?} printed {dbg} which decodes to {:?}", x, v)),
            None => o.viol("C15", &format!("debug-not-a-literal:{ty}"), case, &format!("Debug of {:?} printed {dbg}, not a valid byte-string literal", x)),
        }
        if parse_hex(lx, false).as_deref() != Some(x) || lx.len() != 2 * x.len() {
            o.viol("C15", &format!("lowerhex:{ty}"), case, &format!("{{:x}} of {:?} printed {lx}", x));
        }
        if parse_hex(ux, true).as_deref() != Some(x) || ux.len() != 2 * x.len() {
            o.viol("C15", &format!("upperhex:{ty}"), case, &format!("{{:X}} of {:?} printed {ux}", x));
        }
    }
    // whatever format parameters the caller passes, the output must stay a literal of the contents
    {
        #[derive(Debug)]
        #[allow(dead_code)]
        struct Wrap {
            b: Bytes,
        }
        let w = Wrap { b: b.clone() };
        let variants = [format!("{:12?}", b), format!("{:.0?}", b), format!("{:>9.2?}", b), format!("{:<4?}", m), format!("{:^7?}", m), format!("{:08?}", b)];
        for (vi, out) in variants.iter().enumerate() {
            o.add("formatted", 1);
            if parse_byte_literal(out).as_deref() != Some(x) {
                o.viol("C15", &format!("debug-with-format-parameters:{vi}"), case, &format!("Debug with width/precision (variant {vi}) of {:?} printed {out}", x));
            }
        }
        // a derived Debug forwards the parameters to the field
        let outer = format!("{:6?}", w);
        o.add("formatted", 1);
        let inner = outer.strip_prefix("Wrap { b: ").and_then(|r| r.strip_suffix(" }"));
        if inner.and_then(parse_byte_literal).as_deref() != Some(x) {
            o.viol("C15", "debug-inside-derived-struct", case, &format!("{{:6?}} of a struct holding {:?} printed {outer}", x));
        }
        let hx = [format!("{:10x}", b), format!("{:#X}", m)];
        o.add("formatted", 2);
        if parse_hex(hx[0].trim(), false).as_deref() != Some(x) && !x.is_empty() {
            // width handling of hex output is not specified by the property; only the digits are checked
            let digits: String = hx[0].chars().filter(|c| c.is_ascii_hexdigit()).collect();
            if parse_hex(&digits, false).as_deref() != Some(x) {
                o.viol("C15", "lowerhex-with-width", case, &format!("{{:10x}} of {:?} printed {}", x, hx[0]));
            }
        }
    }
    // alternate / padded formatting flags must not change the digits
    {
        #[derive(Debug)]
        #[allow(dead_code)]
        struct WrapM {
            m: BytesMut,
        }
        for (ty, alt) in [("Bytes", format!("{:#?}", b)), ("BytesMut", format!("{:#?}", m))] {
            o.add("formatted", 1);
            if parse_byte_literal(&alt).as_deref() != Some(x) {
                o.viol("C15", &format!("debug-alternate:{ty}"), case, &format!("{{:#?}} of {:?} printed {}", x, alt));
            }
        }
        // pretty-printed derived struct: `WrapM {\n    m: b"...",\n}`
        let outer = format!("{:#?}", WrapM { m: m.clone() });
        o.add("formatted", 1);
        let inner = outer.strip_prefix("WrapM {\n    m: ").and_then(|r| r.strip_suffix(",\n}"));
        if inner.and_then(parse_byte_literal).as_deref() != Some(x) {
            o.viol("C15", "debug-alternate-inside-derived-struct", case, &format!("{{:#?}} of a struct holding {:?} printed {outer}", x));
        }
    }
    for &c in x {
        let cls = match c {
            b'\n' | b'\r' | b'\t' | b'\\' | b'"' | 0 => format!("esc{c:02x}"),
            b'0'..=b'9' => "digit".to_string(),
            0x20..=0x7e => "printable".to_string(),
            _ => "hexesc".to_string(),
        };
        o.cell(format!("fmt|byte|{cls}"));
    }
    if x.len() == 2 {
        let k = |c: u8| match c {
            0 => "nul",
            b'0'..=b'9' => "digit",
            b'\\' => "bs",
            b'"' => "quote",
            b'x' => "x",
            0x20..=0x7e => "print",
            _ => "other",
        };
        o.cell(format!("fmt|pair|{}-{}", k(x[0]), k(x[1])));
    }
}

fn run_fmt(a: &Args, o: &mut Obs) {
    let seed = a.u64("seed", 1);
    let shard = a.usize("shard", 0);
    let nshards = a.usize("nshards", 1).max(1);
    let nrand = a.usize("random", 2000);
    let mut idx = 0usize;
    fmt_one(o, &[], shard, "tbl:fmt:empty");
    // `--no-exhaustive`: single bytes and seeded strings only (slices interpreted for other targets under Miri)
    let exhaustive = !a.flag("no-exhaustive");
    for v in 0..256usize {
        idx += 1;
        if idx % nshards == shard {
            for rep in 0..NB {
                if !exhaustive && rep != v % NB {
                    continue; // one representation per byte in the reduced (Miri) mode
                }
                fmt_one(o, &[v as u8], rep, &format!("tbl:fmt:1:{v}"));
            }
            o.inc("strings");
        }
    }
    for v in 0..65536usize {
        if !exhaustive {
            break;
        }
        idx += 1;
        if idx % nshards == shard {
            let x = [(v >> 8) as u8, v as u8];
            fmt_one(o, &x, (v + seed as usize) % NB, &format!("tbl:fmt:2:{v}"));
            o.inc("strings");
        }
    }
    let mut r = Rng::new(mix2(seed, shard as u64 + 5));
    for k in 0..nrand {
        // every 4th string is long (beyond 64 / 128 / 256 bytes, lengths at and around those marks) and rich in
        // spaces and printable bytes, so that any chunking / wrapping of the output is exercised
        let long = k % 4 == 3;
        let n = if long { *r.pick(&[63usize, 64, 65, 100, 127, 128, 129, 200, 255, 256, 257, 600]) + r.below(3) } else { 3 + r.below(60) };
        let n = if exhaustive { n } else { n.min(70) };
        let x: Vec<u8> = (0..n).map(|i| if long && (i % 64 == 0 || r.chance(1, 4)) { *r.pick(&[b' ', b' ', b'a', b'\t', b'Z', b'~']) } else if r.chance(1, 3) { *r.pick(&[0u8, b'0', b'7', b'\\', b'"', b'\'', b'\n', b'\r', b'\t', 0x7f, 0x80, 0xff, b'x', b'b']) } else { r.byte() }).collect();
        fmt_one(o, &x, r.below(NB), &format!("tbl:fmt:rnd:{seed}:{shard}:{k}"));
        o.inc("strings");
        if k == 0 {
            o.sample(format!("random string {:?} -> {:?} / {:x}", x, Bytes::copy_from_slice(&x), Bytes::copy_from_slice(&x)));
        }
    }
    o.sample(format!("pair [0x00, b'1'] -> {:?} ; pair [b'\"', b'\\\\'] -> {:?}", Bytes::from_static(b"\x001"), Bytes::from_static(b"\"\\")));
    o.add("exhaustive_universe", 1 + 256 + 65536);
}

// ------------------------------------------------------------------ C15: serde

#[cfg(feature = "serde")]
mod sd {
    use super::*;
    use serde_test::{assert_de_tokens, assert_ser_tokens, Token};

    fn leak(x: &[u8]) -> &'static [u8] {
        Box::leak(x.to_vec().into_boxed_slice())
    }

    fn entry_points(x: &[u8], utf8: bool) -> Vec<(&'static str, Vec<Token>)> {
        let s = leak(x);
        let mut v: Vec<(&'static str, Vec<Token>)> = vec![("bytes", vec![Token::Bytes(s)]), ("borrowed_bytes", vec![Token::BorrowedBytes(s)]), ("byte_buf", vec![Token::ByteBuf(s)])];
        let mut seq = vec![Token::Seq { len: Some(x.len()) }];
        seq.extend(x.iter().map(|&b| Token::U8(b)));
        seq.push(Token::SeqEnd);
        v.push(("seq", seq));
        let mut seq2 = vec![Token::Seq { len: None }];
        seq2.extend(x.iter().map(|&b| Token::U8(b)));
        seq2.push(Token::SeqEnd);
        v.push(("seq_nohint", seq2));
        if utf8 {
            let st: &'static str = std::str::from_utf8(s).unwrap();
            v.push(("str", vec![Token::Str(st)]));
            v.push(("borrowed_str", vec![Token::BorrowedStr(st)]));
            v.push(("string", vec![Token::String(st)]));
        }
        v
    }

    pub fn one(o: &mut Obs, x: &[u8], rep: usize, case: &str) {
        let utf8 = std::str::from_utf8(x).is_ok();
        let b = mk_bytes(rep, x);
        let m = mk_mut(rep, x);
        // serialization goes through serialize_bytes with exactly the contents
        let r = util::catch(|| {
            assert_ser_tokens(&b, &[Token::Bytes(leak(x))]);
            assert_ser_tokens(&m, &[Token::Bytes(leak(x))]);
        });
        o.add("token_streams", 2);
        if let Err(e) = r {
            o.viol("C15", "serde-serialize", case, &format!("serializing {:?}: {e}", x));
        }
        for (name, toks) in entry_points(x, utf8) {
            o.add("token_streams", 2);
            o.cell(format!("serde|{name}|len{}", x.len().min(3)));
            let r = util::catch(|| assert_de_tokens(&b, &toks));
            if let Err(e) = r {
                o.viol("C15", &format!("serde-de:Bytes:{name}"), case, &format!("deserializing {:?} through {name}: {e}", x));
            }
            let r = util::catch(|| assert_de_tokens(&m, &toks));
            if let Err(e) = r {
                o.viol("C15", &format!("serde-de:BytesMut:{name}"), case, &format!("deserializing {:?} through {name}: {e}", x));
            }
        }
    }

    // ---- C17: a SeqAccess with a lying size_hint (and injected errors) driven into visit_seq
    use serde::de::{DeserializeSeed, Deserializer, IntoDeserializer, SeqAccess, Visitor};
    use serde::Deserialize;

    pub struct LyingSeq {
        n: usize,
        i: usize,
        hint: Option<usize>,
        fail_at: Option<usize>,
    }
    impl<'de> SeqAccess<'de> for LyingSeq {
        type Error = serde::de::value::Error;
        fn next_element_seed<T: DeserializeSeed<'de>>(&mut self, seed: T) -> Result<Option<T::Value>, Self::Error> {
            if Some(self.i) == self.fail_at {
                return Err(serde::de::Error::custom("injected element error"));
            }
            if self.i < self.n {
                self.i += 1;
                seed.deserialize((self.i as u8).into_deserializer()).map(Some)
            } else {
                Ok(None)
            }
        }
        fn size_hint(&self) -> Option<usize> {
            self.hint
        }
    }
    pub struct LyingDe(LyingSeq);
    impl<'de> Deserializer<'de> for LyingDe {
        type Error = serde::de::value::Error;
        fn deserialize_any<V: Visitor<'de>>(self, v: V) -> Result<V::Value, Self::Error> {
            v.visit_seq(self.0)
        }
        serde::forward_to_deserialize_any! {
            bool i8 i16 i32 i64 i128 u8 u16 u32 u64 u128 f32 f64 char str string bytes byte_buf option unit
            unit_struct newtype_struct seq tuple tuple_struct map struct enum identifier ignored_any
        }
    }

    pub fn run_lie(a: &Args, o: &mut Obs) {
        let seed = a.u64("seed", 1);
        let shard = a.usize("shard", 0);
        let nshards = a.usize("nshards", 1).max(1);
        let mut k = 0usize;
        #[cfg(feature = "ledger")]
        let mut tag = 7000u32;
        vharness::util::warm_up();
        for &n in &[0usize, 1, 5, 4095, 4096, 4097, 9000 + (seed as usize % 100)] {
            for hint in [None, Some(0), Some(1), Some(n), Some(n + 7), Some(n / 2), Some(4097), Some(usize::MAX), Some(isize::MAX as usize)] {
                for fail_at in [None, Some(0), Some(n / 2), Some(n)] {
                    for ty in 0..2 {
                        k += 1;
                        if k % nshards != shard {
                            continue;
                        }
                        let case = format!("flt:serde:{k}");
                        #[cfg(feature = "ledger")]
                        {
                            tag += 1;
                            vharness::ledger::scope_enter(tag);
                        }
                        let r = util::catch(|| {
                            let de = LyingDe(LyingSeq { n, i: 0, hint, fail_at });
                            if ty == 0 {
                                Bytes::deserialize(de).map(|b| b.to_vec())
                            } else {
                                BytesMut::deserialize(de).map(|b| b.to_vec())
                            }
                        });
                        let want: Vec<u8> = (1..=n).map(|i| i as u8).collect();
                        let outcome = match &r {
                            Ok(Ok(v)) => {
                                if fail_at.map(|f| f < n).unwrap_or(false) || *v != want {
                                    // wrong data is allowed by C17, but it is a C15 matter if no error was injected
                                    if fail_at.is_none() {
                                        o.viol("C15", "serde-seq-lying-hint-wrong-data", &case, &format!("visit_seq with n={n} hint={hint:?} produced {} bytes", v.len()));
                                    }
                                }
                                "ok"
                            }
                            Ok(Err(_)) => "err",
                            Err(_) => "panic",
                        };
                        drop(r);
                        drop(want);
                        #[cfg(feature = "ledger")]
                        {
                            vharness::ledger::scope_exit();
                            vharness::ledger::sweep(true);
                            for v in vharness::ledger::take_violations() {
                                o.viol("C17", &format!("ledger-{:?}:serde-visit_seq", v.kind), &case, &format!("{} with n={n} hint={hint:?} fail_at={fail_at:?}", vharness::ledger::describe(&v)));
                            }
                            let (c, b) = vharness::ledger::tagged_live(tag);
                            o.inc("balance_checks");
                            if c != 0 {
                                o.viol("C17", "leak:serde-visit_seq", &case, &format!("{c} block(s) / {b} bytes live after visit_seq with n={n} hint={hint:?} fail_at={fail_at:?}"));
                            }
                            vharness::ledger::flush_quarantine();
                        }
                        o.inc("fault_cases");
                        o.cell(format!("fault|serde-visit_seq|{outcome}|hint{}|n{}", match hint {
                            None => "none",
                            Some(h) if h == n => "exact",
                            Some(h) if h > n => "over",
                            _ => "under",
                        }, if n > 4096 { ">4096" } else { "<=4096" }));
                    }
                }
            }
        }
        o.sample("serde visit_seq driven by a SeqAccess with n=4097 elements and size_hint Some(usize::MAX) / Some(0) / None, optionally failing at element n/2, into Bytes and BytesMut".to_string());
    }

    pub fn run(a: &Args, o: &mut Obs) {
        let seed = a.u64("seed", 1);
        let shard = a.usize("shard", 0);
        let nshards = a.usize("nshards", 1).max(1);
        let nrand = a.usize("random", 300);
        let stride = a.usize("pair-stride", 1).max(1);
        let mut idx = 0usize;
        one(o, &[], 0, "tbl:serde:empty");
        for v in 0..256usize {
            idx += 1;
            if idx % nshards == shard {
                one(o, &[v as u8], v % NB, &format!("tbl:serde:1:{v}"));
                o.inc("strings");
            }
        }
        let mut v = (seed as usize) % stride;
        while v < 65536 {
            idx += 1;
            if idx % nshards == shard {
                one(o, &[(v >> 8) as u8, v as u8], v % NB, &format!("tbl:serde:2:{v}"));
                o.inc("strings");
            }
            v += stride;
        }
        let mut r = Rng::new(mix2(seed, shard as u64 + 9));
        for k in 0..nrand {
            // include lengths beyond the 4096 pre-allocation cap of visit_seq
            let n = match r.below(6) {
                0 => 4090 + r.below(20),
                1 => 5000 + r.below(4000),
                _ => 3 + r.below(80),
            };
            let ascii = r.chance(1, 2);
            let x: Vec<u8> = (0..n).map(|_| if ascii { 0x20 + r.byte() % 0x5f } else { r.byte() }).collect();
            one(o, &x, r.below(NB), &format!("tbl:serde:rnd:{seed}:{shard}:{k}"));
            o.inc("strings");
        }
        o.sample("b\"a\\xff\" via tokens [Bytes], [BorrowedBytes], [ByteBuf], [Seq{len:2} U8(97) U8(255) SeqEnd], [Seq{len:None} ...]; b\"hi\" additionally via [Str], [BorrowedStr], [String]; both into Bytes and BytesMut; serialization must emit [Bytes(contents)]".to_string());
        o.add("exhaustive_universe", (1 + 256 + 65536 / stride) as u64);
    }
}

fn main() {
    let a = Args::parse();
    util::silence_panics();
    util::apply_parity(&a);
    let mut o = Obs::new();
    vharness::out::journal(&format!("tbl:{}:{}", a.mode, a.usize("shard", 0)));
    match a.mode.as_str() {
        "cmp" => run_cmp(&a, &mut o),
        "fmt" => run_fmt(&a, &mut o),
        #[cfg(feature = "serde")]
        "serde" => sd::run(&a, &mut o),
        #[cfg(feature = "serde")]
        "serdelie" => sd::run_lie(&a, &mut o),
        m => {
            eprintln!("unknown / unavailable mode {m}");
            std::process::exit(2);
        }
    }
    o.finish();
}
