//! Line-oriented records from engine to orchestrator (stdout).
//!
//! ```text
//! OBS k=v k=v ...              cumulative counters of this shard (printed once at the end)
//! CELL <name>                  one distinct non-trivial coverage cell (printed once each at the end)
//! SAMPLE <text>                an actual case from this run
//! VIOL prop=Cxx sig=<sig> case=<case id> detail=<free text to end of line>
//! NOTE <free text>
//! INCONCLUSIVE reason=<...>
//! DIGEST <stream> <case> <hash>
//! CASE <id>                    journal: the case about to run (for crash attribution)
//! DONE                         the shard finished normally
//! ```
use std::collections::{BTreeMap, BTreeSet};
use std::io::Write;

pub struct Obs {
    pub counters: BTreeMap<String, u64>,
    pub cells: BTreeSet<String>,
    pub samples: Vec<String>,
    pub viols: u64,
    pub max_cells: usize,
    pub max_samples: usize,
    pub viol_sigs: BTreeSet<String>,
}

impl Default for Obs {
    fn default() -> Self {
        Self::new()
    }
}

impl Obs {
    pub fn new() -> Obs {
        Obs { counters: BTreeMap::new(), cells: BTreeSet::new(), samples: Vec::new(), viols: 0, max_cells: 60000, max_samples: 6, viol_sigs: BTreeSet::new() }
    }
    pub fn add(&mut self, k: &str, n: u64) {
        if let Some(v) = self.counters.get_mut(k) {
            *v += n;
        } else {
            self.counters.insert(k.to_string(), n);
        }
    }
    pub fn inc(&mut self, k: &str) {
        self.add(k, 1);
    }
    pub fn max(&mut self, k: &str, n: u64) {
        let e = self.counters.entry(k.to_string()).or_insert(0);
        if n > *e {
            *e = n;
        }
    }
    pub fn cell(&mut self, c: impl AsRef<str>) {
        if self.cells.len() < self.max_cells {
            let c = c.as_ref();
            if !self.cells.contains(c) {
                self.cells.insert(c.replace(' ', "_"));
            }
        }
    }
    pub fn sample(&mut self, s: impl Into<String>) {
        if self.samples.len() < self.max_samples {
            let mut s: String = s.into();
            if s.len() > 700 {
                let mut k = 700;
                while !s.is_char_boundary(k) {
                    k -= 1;
                }
                s.truncate(k);
                s.push_str(" ...");
            }
            self.samples.push(s);
        }
    }
    /// Report a violation. Only the first occurrence of each (prop, sig) is printed in full.
    pub fn viol(&mut self, prop: &str, sig: &str, case: &str, detail: &str) {
        self.viols += 1;
        let key = format!("{prop}:{sig}");
        let n = self.viol_sigs.len();
        if self.viol_sigs.contains(&key) || n >= 200 {
            self.add("viol_repeats", 1);
            return;
        }
        self.viol_sigs.insert(key);
        let d = detail.replace('\n', " | ");
        println!("VIOL prop={prop} sig={} case={} detail={d}", sig.replace(' ', "_"), case.replace(' ', "_"));
        let _ = std::io::stdout().flush();
    }
    pub fn note(&self, s: &str) {
        println!("NOTE {}", s.replace('\n', " | "));
    }
    pub fn finish(&self) {
        let mut line = String::from("OBS");
        for (k, v) in &self.counters {
            line.push_str(&format!(" {k}={v}"));
        }
        line.push_str(&format!(" viols={}", self.viols));
        println!("{line}");
        for c in &self.cells {
            println!("CELL {c}");
        }
        for s in &self.samples {
            println!("SAMPLE {}", s.replace('\n', " | "));
        }
        println!("DONE");
        let _ = std::io::stdout().flush();
    }
}

pub fn journal(case: &str) {
    println!("CASE {case}");
}
