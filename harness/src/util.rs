//! Panic plumbing and argument parsing shared by the engines.
use std::panic::{self, AssertUnwindSafe};

/// Install a panic hook that prints nothing (RUST_BACKTRACE is set in this environment and
/// the engines provoke thousands of expected panics).
pub fn silence_panics() {
    if std::env::var_os("VERIF_LOUD").is_none() {
        panic::set_hook(Box::new(|_| {}));
    }
}

/// Runs `f`, returns Err(message) if it panicked.
pub fn catch<R>(f: impl FnOnce() -> R) -> Result<R, String> {
    match panic::catch_unwind(AssertUnwindSafe(f)) {
        Ok(r) => Ok(r),
        Err(e) => {
            let msg = if let Some(s) = e.downcast_ref::<&str>() {
                s.to_string()
            } else if let Some(s) = e.downcast_ref::<String>() {
                s.clone()
            } else {
                "<non-string panic>".to_string()
            };
            Err(msg)
        }
    }
}

/// Warm up lazily initialised runtime state (panic machinery, formatting, thread-locals)
/// so that it is not mistaken for a leak by the ledger.
pub fn warm_up() {
    let _ = catch(|| panic!("warm-up {}", 1));
    let _ = format!("{:?} {:x}", "warm", 255u8);
    let _ = std::thread::spawn(|| {}).join();
}

#[derive(Clone, Debug)]
pub struct Args {
    pub mode: String,
    pub kv: Vec<(String, String)>,
}

impl Args {
    /// `<mode> [--key value | --flag]...`
    pub fn parse() -> Args {
        let a: Vec<String> = std::env::args().skip(1).collect();
        let mut mode = String::new();
        let mut kv = Vec::new();
        let mut i = 0;
        while i < a.len() {
            if let Some(k) = a[i].strip_prefix("--") {
                if i + 1 < a.len() && !a[i + 1].starts_with("--") {
                    kv.push((k.to_string(), a[i + 1].clone()));
                    i += 2;
                } else {
                    kv.push((k.to_string(), "1".to_string()));
                    i += 1;
                }
            } else {
                if mode.is_empty() {
                    mode = a[i].clone();
                }
                i += 1;
            }
        }
        Args { mode, kv }
    }
    pub fn get(&self, k: &str) -> Option<&str> {
        self.kv.iter().rev().find(|(a, _)| a == k).map(|(_, v)| v.as_str())
    }
    pub fn u64(&self, k: &str, d: u64) -> u64 {
        self.get(k).and_then(|v| v.parse().ok()).unwrap_or(d)
    }
    pub fn usize(&self, k: &str, d: usize) -> usize {
        self.u64(k, d as u64) as usize
    }
    pub fn flag(&self, k: &str) -> bool {
        self.get(k).is_some()
    }
    pub fn str(&self, k: &str, d: &str) -> String {
        self.get(k).unwrap_or(d).to_string()
    }
}

/// `--parity even|odd|mixed|packed`: placement of byte buffers. With the ledger all four modes exist (default
/// `mixed`); without it (ASan / TSan / valgrind builds) the stateless shifting allocator offers even (default),
/// odd and mixed; under Miri placement is Miri's own.
pub fn apply_parity(a: &Args) {
    #[cfg(feature = "ledger")]
    {
        use crate::ledger::{set_parity, Parity};
        match a.str("parity", "mixed").as_str() {
            "even" => set_parity(Parity::Even),
            "odd" => set_parity(Parity::Odd),
            "packed" => set_parity(Parity::Packed),
            _ => set_parity(Parity::Mixed),
        }
    }
    #[cfg(all(not(feature = "ledger"), not(miri)))]
    {
        crate::oddalloc::set_mode(match a.str("parity", "even").as_str() {
            "odd" => 1,
            "mixed" => 2,
            _ => 0,
        });
    }
    #[cfg(all(not(feature = "ledger"), miri))]
    {
        let _ = a;
    }
}
