//! C17: safe-but-lying trait implementations driven into every consumer of the crate.
//! Wrong results and panics are allowed; memory errors, crashes and leaks are not.
use super::getters;
use super::{BufX, BX};
use crate::out::Obs;
use crate::rng::{mix2, Rng};
use crate::util::{catch, Args};
use bytes::{Buf, BufMut, Bytes, BytesMut};
use std::cell::Cell;
use std::io::{BufRead, IoSlice, Read};

static OTHER: [u8; 64] = [0x77; 64];

#[derive(Clone, Debug)]
pub struct Plan {
    /// (global call number, lie code)
    pub lies: Vec<(u32, u8)>,
    pub budget: u32,
    pub len: usize,
    pub vect_lie: u8, // 0 honest default, 1 returns too many, 2 returns dst.len()+5 untouched
}

/// A `Buf` written in safe code only that lies according to a plan.
pub struct Lying {
    data: Vec<u8>,
    pos: usize,
    calls: Cell<u32>,
    plan: Plan,
}

impl Lying {
    pub fn new(plan: Plan) -> Lying {
        Lying { data: (0..plan.len).map(|i| (i * 3 + 1) as u8).collect(), pos: 0, calls: Cell::new(0), plan }
    }
    fn tick(&self) -> Option<u8> {
        let c = self.calls.get();
        self.calls.set(c + 1);
        if c >= self.plan.budget {
            panic!("lying buf: call budget exhausted");
        }
        self.plan.lies.iter().find(|(n, _)| *n == c).map(|(_, l)| *l)
    }
    fn left(&self) -> usize {
        self.data.len() - self.pos
    }
}

impl Buf for Lying {
    fn remaining(&self) -> usize {
        match self.tick() {
            None => self.left(),
            Some(l) => match l % 6 {
                0 => self.left() + 1,
                1 => self.left() + 9,
                2 => self.left().saturating_sub(1),
                3 => usize::MAX,
                4 => 0,
                _ => panic!("lying buf: remaining panics"),
            },
        }
    }
    fn chunk(&self) -> &[u8] {
        let honest = &self.data[self.pos..];
        match self.tick() {
            None => honest,
            Some(l) => match l % 5 {
                0 => &honest[..honest.len() / 2],
                1 => &[],
                2 => &OTHER[..],
                3 => &OTHER[..3],
                _ => panic!("lying buf: chunk panics"),
            },
        }
    }
    fn advance(&mut self, cnt: usize) {
        let n = match self.tick() {
            None => cnt,
            Some(l) => match l % 4 {
                0 => 0,
                1 => cnt / 2,
                2 => cnt.saturating_mul(2),
                _ => panic!("lying buf: advance panics"),
            },
        };
        // stays memory safe itself: clamp instead of panicking (a lie, but a safe one)
        self.pos = (self.pos + n.min(self.left())).min(self.data.len());
    }
    fn chunks_vectored<'a>(&'a self, dst: &mut [IoSlice<'a>]) -> usize {
        match self.plan.vect_lie {
            0 => {
                if dst.is_empty() || self.left() == 0 {
                    0
                } else {
                    dst[0] = IoSlice::new(&self.data[self.pos..]);
                    1
                }
            }
            1 => {
                for d in dst.iter_mut() {
                    *d = IoSlice::new(&OTHER[..5]);
                }
                dst.len() + 3
            }
            _ => dst.len() + 5,
        }
    }
}
impl BufX for Lying {
    fn dismantle(self: Box<Self>) -> Vec<BX> {
        Vec::new()
    }
    fn tname(&self) -> &'static str {
        "Lying"
    }
}

/// A lying `Buf` that additionally overrides the safe, overridable bulk methods: `copy_to_slice` /
/// `try_copy_to_slice` return normally without filling `dst` (a "short read"). The crate may not rely
/// on them to initialise memory.
pub struct LyingCts {
    inner: Lying,
    mode: u8,
}
impl Buf for LyingCts {
    fn remaining(&self) -> usize {
        self.inner.remaining()
    }
    fn chunk(&self) -> &[u8] {
        self.inner.chunk()
    }
    fn advance(&mut self, cnt: usize) {
        self.inner.advance(cnt)
    }
    fn copy_to_slice(&mut self, dst: &mut [u8]) {
        let have = self.inner.left();
        let n = match self.mode % 4 {
            0 => dst.len() / 2,
            1 => 0,
            2 => dst.len(),
            _ => panic!("lying buf: copy_to_slice panics"),
        }
        .min(have);
        let p = self.inner.pos;
        dst[..n].copy_from_slice(&self.inner.data[p..p + n]);
        // consumes what it claims to have produced, not what it produced
        self.inner.pos = (p + dst.len().min(have)).min(self.inner.data.len());
    }
    fn try_copy_to_slice(&mut self, dst: &mut [u8]) -> Result<(), bytes::TryGetError> {
        if self.mode % 2 == 0 {
            return Ok(()); // claims success, wrote nothing
        }
        self.copy_to_slice(dst);
        Ok(())
    }
}
impl BufX for LyingCts {
    fn dismantle(self: Box<Self>) -> Vec<BX> {
        Vec::new()
    }
    fn tname(&self) -> &'static str {
        "LyingCts"
    }
}

/// iterator with a lying size_hint
struct LyingIter {
    n: usize,
    i: usize,
    hint: (usize, Option<usize>),
    panic_at: Option<usize>,
}
impl Iterator for LyingIter {
    type Item = u8;
    fn next(&mut self) -> Option<u8> {
        if Some(self.i) == self.panic_at {
            panic!("lying iterator panics");
        }
        if self.i < self.n {
            self.i += 1;
            Some(self.i as u8)
        } else {
            None
        }
    }
    fn size_hint(&self) -> (usize, Option<usize>) {
        self.hint
    }
}

struct PanicDropOwner {
    buf: Vec<u8>,
}
impl AsRef<[u8]> for PanicDropOwner {
    fn as_ref(&self) -> &[u8] {
        &self.buf
    }
}
impl Drop for PanicDropOwner {
    fn drop(&mut self) {
        if !std::thread::panicking() {
            panic!("owner destructor panics");
        }
    }
}

struct FlakyOwner {
    a: Vec<u8>,
    b: Vec<u8>,
    calls: Cell<u32>,
    mode: u8,
}
// SAFETY of Send: the owner is only used on this thread; `Cell` is what makes the answers vary
unsafe impl Send for FlakyOwner {}
impl AsRef<[u8]> for FlakyOwner {
    fn as_ref(&self) -> &[u8] {
        let c = self.calls.get();
        self.calls.set(c + 1);
        match self.mode {
            0 => {
                if c % 2 == 0 {
                    &self.a
                } else {
                    &self.b
                }
            }
            1 => panic!("owner as_ref panics"),
            2 => &self.a[..self.a.len() / 2],
            3 => &[],
            _ => {
                // first answer short, later answers long
                if c == 0 {
                    &self.b
                } else {
                    &self.a
                }
            }
        }
    }
}

/// read every byte of a result: exposing uninitialised memory is only visible (to Miri) when it is read
/// (the data-dependent branch makes valgrind's memcheck report it too: "conditional jump depends on uninitialised value")
fn touch(b: &[u8]) {
    static ODD: std::sync::atomic::AtomicU32 = std::sync::atomic::AtomicU32::new(0);
    let s: u32 = b.iter().map(|&x| x as u32).sum();
    if std::hint::black_box(s) & 1 == 1 {
        ODD.fetch_add(1, std::sync::atomic::Ordering::Relaxed);
    }
}

pub const N_ENTRY: usize = 38;

/// Drive one consumer with a lying implementation. Returns a name for coverage.
pub fn consumer(entry: usize, plan: &Plan, aux: usize) -> &'static str {
    let lying = || Lying::new(plan.clone());
    let lying_cts = || LyingCts { inner: Lying::new(plan.clone()), mode: (aux / 3) as u8 };
    let rows = getters::rows();
    match entry {
        0 => {
            let row = &rows[aux % rows.len()];
            let mut b: BX = Box::new(lying());
            let _ = (row.get[aux % 3])(&mut b, aux % 9);
            "getter"
        }
        1 => {
            let row = &rows[aux % rows.len()];
            let mut b: BX = Box::new(lying());
            let _ = (row.try_get[aux % 3])(&mut b, aux % 9);
            "try_getter"
        }
        2 => {
            let mut l = lying();
            let mut dst = vec![0u8; aux % 40];
            l.copy_to_slice(&mut dst);
            "copy_to_slice"
        }
        3 => {
            let mut l = lying();
            let r = l.copy_to_bytes(aux % 40);
            touch(&r);
            "copy_to_bytes-default"
        }
        4 => {
            let mut c = Buf::chain(lying(), &b"tail-bytes"[..]);
            let _ = c.copy_to_bytes(aux % 45);
            let _ = c.remaining();
            "copy_to_bytes-chain-a"
        }
        5 => {
            let mut c = Buf::chain(&b"head"[..], lying());
            let _ = c.copy_to_bytes(aux % 45);
            c.advance(aux % 7);
            "copy_to_bytes-chain-b"
        }
        6 => {
            let mut t = lying().take(aux % 50);
            let _ = t.copy_to_bytes(aux % 40);
            let _ = t.chunk().len();
            "copy_to_bytes-take"
        }
        7 => {
            let t = lying().take(aux % 50);
            let mut dst = [IoSlice::new(&[]); 20];
            let n = t.chunks_vectored(&mut dst[..aux % 21]);
            let _: usize = dst.iter().take(n.min(20)).map(|s| s.iter().map(|&b| b as usize).sum::<usize>()).sum();
            "chunks_vectored-take"
        }
        8 => {
            let c = lying().chain(lying());
            let mut dst = [IoSlice::new(&[]); 20];
            let n = c.chunks_vectored(&mut dst[..aux % 21]);
            let _: usize = dst.iter().take(n.min(20)).map(|s| s.iter().map(|&b| b as usize).sum::<usize>()).sum();
            "chunks_vectored-chain"
        }
        9 => {
            let mut v: Vec<u8> = Vec::with_capacity(aux % 8);
            v.put(lying());
            touch(&v);
            "put-into-vec"
        }
        10 => {
            let mut m = BytesMut::with_capacity(aux % 8);
            m.put(lying());
            let b = m.freeze();
            touch(&b);
            "put-into-bytesmut"
        }
        11 => {
            let mut arr = [0u8; 48];
            let mut s = &mut arr[..aux % 49];
            s.put(lying());
            "put-into-slice"
        }
        12 => {
            let mut l = Vec::new().limit(aux % 30);
            l.put(lying());
            "put-into-limit"
        }
        13 => {
            let mut a1 = [0u8; 5];
            let mut c = (&mut a1[..]).chain_mut(Vec::new());
            c.put(lying());
            "put-into-chain"
        }
        14 => {
            let mut a1 = [core::mem::MaybeUninit::<u8>::uninit(); 24];
            let mut s = &mut a1[..aux % 25];
            s.put(lying());
            "put-into-uninit"
        }
        15 => {
            let mut r = lying().reader();
            let mut dst = vec![0u8; aux % 40];
            let _ = r.read(&mut dst);
            let _ = r.read(&mut dst);
            "reader-read"
        }
        16 => {
            let mut r = lying().reader();
            let n = r.fill_buf().map(|s| s.len()).unwrap_or(0);
            r.consume(n.min(aux % 50));
            let _ = r.fill_buf().map(|s| s.len());
            "reader-bufread"
        }
        17 => {
            let mut r = lying().reader();
            let mut v = Vec::new();
            let _ = r.read_to_end(&mut v);
            "reader-read_to_end"
        }
        18 => {
            let it = bytes::buf::IntoIter::new(lying());
            let _: Vec<u8> = it.take(100).collect();
            "into_iter"
        }
        19 => {
            let o = FlakyOwner { a: vec![1; 20], b: vec![2; 3], calls: Cell::new(0), mode: (aux % 5) as u8 };
            let b = Bytes::from_owner(o);
            let c = b.clone();
            let s = b.slice(..b.len() / 2);
            let _ = (c.len(), s.len());
            let v: Vec<u8> = b.into();
            touch(&v);
            "from_owner-flaky"
        }
        20 | 21 | 22 | 23 => {
            let hint = match aux % 6 {
                0 => (0, None),
                1 => (3, Some(1)),
                2 => (usize::MAX, None),
                3 => (isize::MAX as usize + 1, Some(0)),
                4 => (40, Some(40)),
                _ => (1000, Some(2)),
            };
            let it = LyingIter { n: aux % 30, i: 0, hint, panic_at: if aux % 5 == 0 { Some(aux % 9) } else { None } };
            match entry {
                20 => {
                    let mut m = BytesMut::with_capacity(2);
                    m.extend(it);
                    touch(&m);
                    "extend-u8"
                }
                21 => {
                    let b: Bytes = it.collect();
                    touch(&b);
                    "bytes-from_iter"
                }
                22 => {
                    let m: BytesMut = it.collect();
                    touch(&m);
                    "bytesmut-from_iter"
                }
                _ => {
                    let mut m = BytesMut::new();
                    m.extend(it.map(|b| Bytes::from(vec![b; (b % 5) as usize])));
                    touch(&m);
                    "extend-bytes"
                }
            }
        }
        24 => {
            let mut t = (lying().take(aux % 30)).take(aux % 17);
            let mut dst = vec![0u8; aux % 20];
            t.copy_to_slice(&mut dst);
            let _ = t.into_inner().into_inner().remaining();
            "take-take"
        }
        25 => {
            let mut b: BX = Box::new(lying());
            let mut r: &mut dyn BufX = &mut *b;
            let _ = Buf::copy_to_bytes(&mut r, aux % 30);
            let _ = Buf::get_u64_le(&mut b);
            "forwarding"
        }
        26 => {
            let mut m = BytesMut::with_capacity(4);
            m.put((lying().chain(lying())).take(aux % 60));
            "put-take-chain"
        }
        27 => {
            let mut arr16 = [0u8; 16];
            let mut l = (&mut arr16[..]).limit(aux % 20);
            l.put(lying());
            "put-limit-slice"
        }
        28 => {
            let mut w = Vec::new().writer();
            let _ = std::io::copy(&mut lying().reader(), &mut w);
            "io-copy"
        }
        30 => {
            let mut l = lying_cts();
            let r = l.copy_to_bytes(aux % 40);
            touch(&r);
            let r = l.copy_to_bytes(aux % 7);
            touch(&r);
            "cts-copy_to_bytes-default"
        }
        31 => {
            let mut t = lying_cts().take(aux % 50);
            let r = t.copy_to_bytes(aux % 40);
            touch(&r);
            let mut dst = vec![0u8; aux % 9];
            t.copy_to_slice(&mut dst);
            touch(&dst);
            "cts-copy_to_bytes-take"
        }
        32 => {
            if aux % 2 == 0 {
                let mut c = Buf::chain(lying_cts(), &b"tail-bytes"[..]);
                let r = c.copy_to_bytes(aux % 45);
                touch(&r);
            } else {
                let mut c = Buf::chain(&b"head"[..], lying_cts());
                let r = c.copy_to_bytes(aux % 45);
                touch(&r);
                let r = c.copy_to_bytes(aux % 11);
                touch(&r);
            }
            "cts-copy_to_bytes-chain"
        }
        33 => {
            let mut b: BX = Box::new(lying_cts());
            if aux % 2 == 0 {
                let mut r: &mut dyn BufX = &mut *b;
                let x = Buf::copy_to_bytes(&mut r, aux % 30);
                touch(&x);
            } else {
                let x = Buf::copy_to_bytes(&mut b, aux % 30);
                touch(&x);
            }
            let mut dst = [0u8; 12];
            let _ = Buf::try_copy_to_slice(&mut b, &mut dst[..aux % 13]);
            touch(&dst);
            "cts-forwarding"
        }
        34 => {
            let row = &rows[aux % rows.len()];
            let mut b: BX = Box::new(lying_cts());
            if aux % 2 == 0 {
                let _ = std::hint::black_box((row.get[aux % 3])(&mut b, aux % 9));
            } else {
                let _ = std::hint::black_box((row.try_get[aux % 3])(&mut b, aux % 9));
            }
            "cts-getter"
        }
        35 => {
            match aux % 4 {
                0 => {
                    let mut r = lying_cts().reader();
                    let mut dst = vec![0u8; aux % 40];
                    let _ = r.read(&mut dst);
                    let _ = r.read_exact(&mut dst);
                    touch(&dst);
                }
                1 => {
                    let mut r = lying_cts().reader();
                    let mut v = Vec::new();
                    let _ = r.read_to_end(&mut v);
                    touch(&v);
                }
                2 => {
                    let mut m = BytesMut::with_capacity(aux % 8);
                    m.put(lying_cts());
                    touch(&m);
                }
                _ => {
                    let v: Vec<u8> = bytes::buf::IntoIter::new(lying_cts()).take(100).collect();
                    touch(&v);
                }
            }
            "cts-reader-put-iter"
        }
        36 => {
            // an owner whose destructor panics (only when not already unwinding): the crate's block holding the
            // owner must still be released exactly once, whichever call drops the last view
            let o = PanicDropOwner { buf: vec![7; 1 + aux % 40] };
            let b = Bytes::from_owner(o);
            let c = b.clone();
            let s = c.slice(..c.len() / 2);
            match aux % 5 {
                0 => {
                    drop(b);
                    drop(s);
                    drop(c); // last view: the destructor panics here
                }
                1 => {
                    drop(b);
                    drop(c);
                    let v: Vec<u8> = s.into(); // copies, then releases the owner: panic after the copy
                    touch(&v);
                }
                2 => {
                    drop(c);
                    drop(s);
                    let m = BytesMut::from(b);
                    touch(&m);
                }
                3 => {
                    drop(s);
                    drop(c);
                    if let Err(b) = b.try_into_mut() {
                        touch(&b);
                    }
                }
                _ => {
                    let mut t = c;
                    drop(b);
                    drop(s);
                    t.truncate(0);
                    t.clear();
                }
            }
            "from_owner-drop-panics"
        }
        37 => {
            // an iterator that panics in the middle of `extend`, after the buffer had to grow: the handle must still be
            // a valid, usable buffer afterwards (it is read, written and dropped after the panic was caught)
            // small hints make the buffer grow while the iterator runs; hints just below usize::MAX make `reserve`
            // itself refuse (capacity overflow panic, > isize::MAX so never an allocation attempt) before anything
            // is written -- the handle must be untouched by that as well
            let hint = match aux % 7 {
                0 => (0, None),
                1 => (1, Some(1)),
                2 => (3, None),
                3 => (usize::MAX - 8 - (aux / 7) % 9, None),
                4 => (usize::MAX - 3 - (aux / 7) % 4, Some(5)),
                5 => (usize::MAX - 16 + (aux / 7) % 16, None),
                _ => (0, Some(0)),
            };
            let n = 20 + aux % 300;
            let it = LyingIter { n, i: 0, hint, panic_at: Some(4 + (aux / 4) % (n - 4)) };
            let mut sibling: Option<BytesMut> = None;
            let mut m = match (aux / 3) % 4 {
                0 => BytesMut::with_capacity(2),
                1 => {
                    let mut m = BytesMut::from(&b"0123456789"[..]);
                    m.advance(7); // inline-Vec form with a front offset
                    m
                }
                2 => {
                    let mut m = BytesMut::from(&b"abcdefgh"[..]);
                    drop(m.split_to(3)); // shared form, unique again, at an offset
                    m
                }
                _ => {
                    let mut m = BytesMut::from(&b"abcdefgh"[..]);
                    sibling = Some(m.split_to(3)); // shared form with a live sibling
                    m
                }
            };
            let before = m.to_vec();
            let r = crate::util::catch(|| m.extend(it));
            assert!(r.is_err(), "budget: the iterator was expected to panic");
            touch(&m);
            let _ = m.starts_with(&before);
            m.put_u8(1);
            m.reserve(64);
            touch(&m);
            drop(m);
            if let Some(sib) = sibling {
                touch(&sib);
            }
            "extend-panics-midway"
        }
        _ => {
            if aux % 2 == 0 {
                // IntoIterator for Chain
                let v: Vec<u8> = IntoIterator::into_iter(Buf::chain(lying(), &b"xyz"[..])).take(200).collect();
                touch(&v);
            }
            let mut c = lying().chain(lying());
            c.advance(aux % 70);
            let _ = c.chunk().len();
            let _ = c.copy_to_bytes(aux % 10);
            "chain-advance"
        }
    }
}

pub fn faults(a: &Args, o: &mut Obs) {
    let seed = a.u64("seed", 1);
    let shard = a.usize("shard", 0);
    let nshards = a.usize("nshards", 1).max(1);
    let count = a.usize("count", 2000);
    let only = a.get("only").map(|v| v.parse::<usize>().unwrap());
    crate::util::warm_up();
    #[cfg(feature = "ledger")]
    let mut tag = 100u32;
    let mut idx = 0usize;
    let mut run_one = |o: &mut Obs, entry: usize, plan: Plan, aux: usize, case: String| {
        if only.is_none() && idx % 128 == 0 {
            crate::out::journal(&case);
        } else if only.is_some() {
            crate::out::journal(&case);
        }
        idx += 1;
        #[cfg(feature = "ledger")]
        {
            tag += 1;
            crate::ledger::scope_enter(tag);
        }
        let r = catch(|| consumer(entry, &plan, aux));
        let (name, outcome) = match &r {
            Ok(n) => (*n, "ok"),
            Err(m) if m.contains("budget") => ("", "budget"),
            Err(_) => ("", "panic"),
        };
        drop(r);
        #[cfg(feature = "ledger")]
        {
            crate::ledger::scope_exit();
            crate::ledger::sweep(true);
            if crate::ledger::violation_count() > 0 {
                for v in crate::ledger::take_violations() {
                    o.viol("C17", &format!("ledger-{:?}:entry{entry}", v.kind), &case, &format!("{} while driving entry {entry} with {plan:?} aux={aux}", crate::ledger::describe(&v)));
                }
            }
            let (c, b) = crate::ledger::tagged_live(tag);
            o.inc("balance_checks");
            if c != 0 {
                o.viol("C17", &format!("leak:entry{entry}"), &case, &format!("{c} block(s) / {b} bytes still live after entry {entry} unwound with {plan:?} aux={aux}"));
            }
            crate::ledger::flush_quarantine();
        }
        o.inc("fault_cases");
        o.inc(&format!("outcome_{outcome}"));
        if !name.is_empty() {
            o.cell(format!("fault|{name}|ok"));
        }
        o.cell(format!("fault|entry{entry}|{outcome}|lies{}", plan.lies.len().min(3)));
    };
    // exhaustive: entry x first lying call <= 6 x lie kind (12 codes cover every variant of every method)
    let mut k = 0usize;
    let efrom = a.usize("entry-from", 0);
    let eto = a.usize("entry-to", N_ENTRY);
    for entry in efrom..eto.min(N_ENTRY) {
        for call in 0..7u32 {
            for code in 0..12u8 {
                for vect in 0..3u8 {
                    if vect > 0 && !(entry == 7 || entry == 8) {
                        continue;
                    }
                    k += 1;
                    if k % nshards != shard {
                        continue;
                    }
                    if only.map(|x| x != k).unwrap_or(false) {
                        continue;
                    }
                    let plan = Plan { lies: vec![(call, code)], budget: 400, len: 10 + (k % 23), vect_lie: vect };
                    // entries 19..=23 (owner / iterators) ignore the lie plan: walk their own variants instead
                    let aux = if (19..=23).contains(&entry) { (call as usize * 12 + code as usize) + 30 * (seed as usize % 3) } else { k * 7 + seed as usize };
                    run_one(o, entry, plan, aux, format!("flt:x:{k}"));
                }
            }
        }
    }
    o.add("exhaustive_single_lie_cases", k as u64);
    // getters on a buffer holding fewer bytes than the value needs, whose first remaining() claims more:
    // every row x get/try_get x data length {0, 1, w/2, w-1} x first-call lie {+1, +9, usize::MAX} x chunk()
    // {honest, half, empty, 3 bytes of another slice} x second remaining() {honest, 0, -1}
    let rows = getters::rows();
    let mut g = 0usize;
    let no_short = a.flag("no-short");
    for (ri, row) in rows.iter().enumerate() {
        if no_short {
            break;
        }
        let js = if row.width == 0 { 9 } else { 3 };
        for j in 0..js {
            let aux = ri + rows.len() * j;
            let w = if row.width == 0 { aux % 9 } else { row.width };
            let mut lens = vec![0usize, 1, w / 2, w.saturating_sub(1)];
            lens.sort_unstable();
            lens.dedup();
            for &len in &lens {
                for which in 0..2usize {
                    for rem0 in [0u8, 1, 3] {
                        for l1 in [None, Some(0u8), Some(1), Some(3)] {
                            for l2 in [None, Some(4u8), Some(2)] {
                                g += 1;
                                if g % nshards != shard {
                                    continue;
                                }
                                let id = 500_000_000 + g;
                                if only.map(|x| x != id).unwrap_or(false) {
                                    continue;
                                }
                                let mut lies = vec![(0u32, rem0)];
                                if let Some(c) = l1 {
                                    lies.push((1, c));
                                }
                                if let Some(c) = l2 {
                                    lies.push((2, c));
                                }
                                let plan = Plan { lies, budget: 200, len, vect_lie: 0 };
                                run_one(o, which, plan, aux, format!("flt:g:{id}"));
                            }
                        }
                    }
                }
            }
        }
    }
    o.add("short_getter_cases", g as u64);
    // random multi-lie schedules
    for c in 0..count {
        let g = shard + c * nshards;
        let id = 1_000_000 + g;
        if only.map(|x| x != id).unwrap_or(false) {
            continue;
        }
        let mut r = Rng::new(mix2(seed, g as u64));
        let nl = 1 + r.below(4);
        let lies = (0..nl).map(|_| (r.below(12) as u32, r.byte())).collect();
        let plan = Plan { lies, budget: 30 + r.below(300) as u32, len: r.below(70), vect_lie: r.below(3) as u8 };
        let entry = r.below(N_ENTRY);
        let aux = r.below(10_000);
        if c % 211 == 0 {
            o.sample(format!("flt:r:{id}: entry {entry} aux {aux} plan {plan:?}"));
        }
        run_one(o, entry, plan, aux, format!("flt:r:{id}"));
    }
    o.sample("flt:x: entry 10 (BytesMut::put(lying)) with the 3rd trait call lying 'remaining() = usize::MAX'; entry 7 (Take::chunks_vectored) with inner returning dst.len()+5".to_string());
}
