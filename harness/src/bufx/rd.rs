//! Reader conformance (C09, C12): lock-step comparison of a tree with its flat model.
use super::*;
use crate::out::Obs;
use crate::rng::Rng;
use crate::util::catch;
use std::io::{BufRead, Read};

static SENTINEL: [u8; 3] = [0xEE, 0xEF, 0xF0];

#[derive(Clone, Debug)]
pub enum ROp {
    Rem,
    Chunk,
    Adv(usize),
    Vect(usize),
    CopySlice(usize),
    TryCopySlice(usize),
    CopyBytes(usize),
    GetU8,
    GetU32Le,
    SetLimit(usize),
}

/// outcome of one step
pub enum Step {
    Ok,
    /// the op was out of contract and panicked as it must; the case ends here
    EndedByExpectedPanic,
    Bad(String, String), // (signature, detail)
}

fn laws<B: Buf + ?Sized>(b: &B, rest: &[u8]) -> Option<(String, String)> {
    let r = b.remaining();
    if r != rest.len() {
        return Some(("remaining".into(), format!("remaining()={} but {} bytes are left in the sequence", r, rest.len())));
    }
    if b.has_remaining() != !rest.is_empty() {
        return Some(("has_remaining".into(), "has_remaining() disagrees with remaining()".into()));
    }
    let c = b.chunk();
    if c.len() > rest.len() || c != &rest[..c.len()] {
        return Some(("chunk-not-prefix".into(), format!("chunk()={:?} is not a prefix of {:?}", &c[..c.len().min(12)], &rest[..rest.len().min(12)])));
    }
    if c.is_empty() && !rest.is_empty() {
        return Some(("chunk-empty".into(), format!("chunk() is empty although {} bytes remain", rest.len())));
    }
    None
}

/// Apply one op through whatever type `B` is (dyn, Box<dyn>, &mut dyn): that is what exercises the
/// forwarding impls.
pub fn apply<B: Buf + ?Sized>(b: &mut B, op: &ROp, rest: &mut Vec<u8>, consumed: &mut usize) -> Step {
    let n0 = rest.len();
    match op {
        ROp::Rem | ROp::Chunk | ROp::SetLimit(_) => {}
        ROp::Adv(k) => {
            let k = *k;
            let r = catch(|| b.advance(k));
            if k > n0 {
                return match r {
                    Err(_) => Step::EndedByExpectedPanic,
                    Ok(_) => Step::Bad("advance-no-panic".into(), format!("advance({k}) with {n0} remaining did not panic")),
                };
            }
            if let Err(e) = r {
                return Step::Bad("advance-panic".into(), format!("advance({k}) with {n0} remaining panicked: {e}"));
            }
            rest.drain(..k);
            *consumed += k;
        }
        ROp::Vect(n) => {
            let n = *n;
            let mut dst: Vec<IoSlice<'_>> = (0..n).map(|_| IoSlice::new(&SENTINEL)).collect();
            let r = catch(|| b.chunks_vectored(&mut dst));
            let cnt = match r {
                Ok(c) => c,
                Err(e) => return Step::Bad("vectored-panic".into(), format!("chunks_vectored(dst.len()={n}) panicked: {e}")),
            };
            if cnt > n {
                return Step::Bad("vectored-count".into(), format!("chunks_vectored returned {cnt} > dst.len() {n}"));
            }
            let mut cat = Vec::new();
            let mut nonempty = false;
            for s in &dst[..cnt] {
                if !s.is_empty() {
                    nonempty = true;
                }
                cat.extend_from_slice(s);
            }
            if cat.len() > n0 || cat[..] != rest[..cat.len()] {
                return Step::Bad("vectored-not-prefix".into(), format!("chunks_vectored(dst.len()={n}) returned {cnt} slices whose concatenation {:?} is not a prefix of {:?}", &cat[..cat.len().min(16)], &rest[..n0.min(16)]));
            }
            if n > 0 && n0 > 0 && !nonempty {
                return Step::Bad("vectored-empty".into(), format!("chunks_vectored(dst.len()={n}) returned no data although {n0} bytes remain"));
            }
            for s in &dst[cnt..] {
                if s.as_ptr() != SENTINEL.as_ptr() || s.len() != SENTINEL.len() {
                    return Step::Bad("vectored-touched-beyond".into(), format!("chunks_vectored returned {cnt} but modified dst beyond that"));
                }
            }
        }
        ROp::CopySlice(k) => {
            let k = *k;
            let mut dst = vec![0x11u8; k];
            let r = catch(|| b.copy_to_slice(&mut dst));
            if k > n0 {
                return match r {
                    Err(_) => Step::EndedByExpectedPanic,
                    Ok(_) => Step::Bad("copy_to_slice-no-panic".into(), format!("copy_to_slice({k}) with {n0} remaining did not panic")),
                };
            }
            if let Err(e) = r {
                return Step::Bad("copy_to_slice-panic".into(), format!("copy_to_slice({k}) with {n0} remaining panicked: {e}"));
            }
            if dst[..] != rest[..k] {
                return Step::Bad("copy_to_slice-bytes".into(), format!("copy_to_slice({k}) returned {:?}, expected {:?}", &dst[..k.min(16)], &rest[..k.min(16)]));
            }
            rest.drain(..k);
            *consumed += k;
        }
        ROp::TryCopySlice(k) => {
            let k = *k;
            let mut dst = vec![0x22u8; k];
            let r = catch(|| b.try_copy_to_slice(&mut dst));
            match r {
                Err(e) => return Step::Bad("try_copy_to_slice-panic".into(), format!("try_copy_to_slice({k}) with {n0} remaining panicked: {e}")),
                Ok(Ok(())) => {
                    if k > n0 {
                        return Step::Bad("try_copy_to_slice-ok-short".into(), format!("try_copy_to_slice({k}) with {n0} remaining returned Ok"));
                    }
                    if dst[..] != rest[..k] {
                        return Step::Bad("try_copy_to_slice-bytes".into(), format!("try_copy_to_slice({k}) returned {:?}, expected {:?}", &dst[..k.min(16)], &rest[..k.min(16)]));
                    }
                    rest.drain(..k);
                    *consumed += k;
                }
                Ok(Err(e)) => {
                    if k <= n0 {
                        return Step::Bad("try_copy_to_slice-err-enough".into(), format!("try_copy_to_slice({k}) with {n0} remaining returned {e:?}"));
                    }
                    if e.requested != k || e.available != n0 {
                        return Step::Bad("try_copy_to_slice-err-fields".into(), format!("try_copy_to_slice({k}) with {n0} remaining returned {e:?}"));
                    }
                    // Display / io::Error conversions carry the same numbers
                    let text = format!("{e}");
                    if !text.contains(&k.to_string()) || !text.contains(&n0.to_string()) {
                        return Step::Bad("try_get_error-display".into(), format!("TryGetError Display {text:?} does not mention {k} and {n0}"));
                    }
                    let io: std::io::Error = e.into();
                    if io.kind() != std::io::ErrorKind::Other {
                        return Step::Bad("try_get_error-io".into(), "io::Error::from(TryGetError) has an unexpected kind".into());
                    }
                }
            }
        }
        ROp::CopyBytes(k) => {
            let k = *k;
            let r = catch(|| b.copy_to_bytes(k));
            if k > n0 {
                return match r {
                    Err(_) => Step::EndedByExpectedPanic,
                    Ok(_) => Step::Bad("copy_to_bytes-no-panic".into(), format!("copy_to_bytes({k}) with {n0} remaining did not panic")),
                };
            }
            match r {
                Err(e) => return Step::Bad("copy_to_bytes-panic".into(), format!("copy_to_bytes({k}) with {n0} remaining panicked: {e}")),
                Ok(got) => {
                    if got[..] != rest[..k] {
                        return Step::Bad("copy_to_bytes-bytes".into(), format!("copy_to_bytes({k}) returned {:?}, expected {:?}", &got[..k.min(16)], &rest[..k.min(16)]));
                    }
                }
            }
            rest.drain(..k);
            *consumed += k;
        }
        ROp::GetU8 => {
            let r = catch(|| b.get_u8());
            if n0 < 1 {
                return match r {
                    Err(_) => Step::EndedByExpectedPanic,
                    Ok(_) => Step::Bad("get_u8-no-panic".into(), "get_u8 on an empty buffer did not panic".into()),
                };
            }
            match r {
                Ok(v) if v == rest[0] => {}
                Ok(v) => return Step::Bad("get_u8-value".into(), format!("get_u8 returned {v:#x}, expected {:#x}", rest[0])),
                Err(e) => return Step::Bad("get_u8-panic".into(), e),
            }
            rest.drain(..1);
            *consumed += 1;
        }
        ROp::GetU32Le => {
            let r = catch(|| b.get_u32_le());
            if n0 < 4 {
                return match r {
                    Err(_) => Step::EndedByExpectedPanic,
                    Ok(_) => Step::Bad("get_u32_le-no-panic".into(), format!("get_u32_le with {n0} remaining did not panic")),
                };
            }
            let want = u32::from_le_bytes([rest[0], rest[1], rest[2], rest[3]]);
            match r {
                Ok(v) if v == want => {}
                Ok(v) => return Step::Bad("get_u32_le-value".into(), format!("get_u32_le returned {v:#x}, expected {want:#x}")),
                Err(e) => return Step::Bad("get_u32_le-panic".into(), e),
            }
            rest.drain(..4);
            *consumed += 4;
        }
    }
    match laws(b, rest) {
        Some((s, d)) => Step::Bad(s, format!("after {op:?}: {d}")),
        None => Step::Ok,
    }
}

pub fn has_endless(s: &Spec) -> bool {
    match s {
        Spec::Endless => true,
        Spec::Take(_, _, x) => has_endless(x),
        Spec::Chain(_, a, b) => has_endless(a) || has_endless(b),
        _ => false,
    }
}

pub fn has_adapter(s: &Spec) -> bool {
    matches!(s, Spec::Take(..) | Spec::Chain(..))
}

pub fn report(o: &mut Obs, spec: &Spec, sig: &str, case: &str, detail: &str, c12_only: bool) {
    let shape = spec.shape();
    // the signature names the outermost adapter only, so that it stays stable
    let top = shape.split('(').next().unwrap_or("?").trim_end_matches(|c: char| c.is_ascii_digit()).to_string();
    let d = format!("{detail} || tree={shape} spec={spec:?}");
    let d = if d.len() > 1800 { d[..1800].to_string() } else { d };
    if !c12_only {
        o.viol("C09", &format!("{sig}:{top}"), case, &d);
    }
    if has_adapter(spec) || c12_only {
        o.viol("C12", &format!("{sig}:{top}"), case, &d);
    }
}

fn bclass(pos_before: usize, pos_after: usize, bounds: &[usize]) -> &'static str {
    if bounds.iter().any(|&b| b > pos_before && b < pos_after) {
        "across"
    } else if bounds.contains(&pos_after) && pos_after != pos_before {
        "at"
    } else {
        "inside"
    }
}

fn opname(op: &ROp) -> &'static str {
    match op {
        ROp::Rem => "remaining",
        ROp::Chunk => "chunk",
        ROp::Adv(_) => "advance",
        ROp::Vect(_) => "chunks_vectored",
        ROp::CopySlice(_) => "copy_to_slice",
        ROp::TryCopySlice(_) => "try_copy_to_slice",
        ROp::CopyBytes(_) => "copy_to_bytes",
        ROp::GetU8 => "get_u8",
        ROp::GetU32Le => "get_u32_le",
        ROp::SetLimit(_) => "set_limit",
    }
}

#[derive(Clone, Copy, Debug)]
pub enum Final {
    Dismantle,
    IntoIter,
    ReaderRead(usize),
    ReaderBufRead(usize),
    ReaderToEnd,
    ReaderExact(usize),
}

/// Run one case: build the tree, apply `ops` through access path `path`, then finish.
pub fn run_case(o: &mut Obs, spec: &Spec, ops: &[ROp], path: usize, fin: Final, case: &str) -> u64 {
    let mut dg: u64 = 0;
    let model = spec.model();
    let mut bounds = Vec::new();
    spec.boundaries(0, &mut bounds);
    let mut root = build(spec);
    let mut rest = model.clone();
    let mut consumed = 0usize;
    let mut root_limit: Option<usize> = None;
    let mut inner_consumed_at_set = 0usize;
    o.inc("cases");
    if let Some((s, d)) = laws(&*root, &rest) {
        report(o, spec, &s, case, &format!("fresh tree: {d}"), false);
        return 0xBAD0;
    }
    for op in ops {
        o.inc("steps");
        if let ROp::SetLimit(l) = op {
            if *l > 2000 && has_endless(spec) {
                continue; // the stand-in model of an endless source is only 4096 bytes long
            }
            if let Spec::Take(_, _, inner) = spec {
                if root.set_limit_opt(*l) {
                    // the root now exposes min(l, what is left of the inner)
                    let im = inner.model();
                    let left = &im[consumed.min(im.len())..];
                    rest = left[..(*l).min(left.len())].to_vec();
                    root_limit = Some(*l);
                    inner_consumed_at_set = consumed;
                }
            } else {
                continue;
            }
        }
        let before = consumed;
        let lim_before = root.limit_opt();
        let st = match path {
            0 => apply(&mut *root, op, &mut rest, &mut consumed),
            1 => apply(&mut root, op, &mut rest, &mut consumed),
            _ => {
                let mut r: &mut dyn BufX = &mut *root;
                apply(&mut r, op, &mut rest, &mut consumed)
            }
        };
        o.cell(format!("rd|{}|{}|{}|p{}", spec.shape().split('(').next().unwrap_or(""), opname(op), bclass(before, consumed, &bounds), path));
        match st {
            Step::Ok => {
                dg = crate::rng::fnv_u64(dg, 1 + consumed as u64 * 4);
            }
            Step::EndedByExpectedPanic => {
                o.inc("expected_panics");
                // a refused request may leave a tree half-consumed (Chain::advance drains `a` first), but a
                // Take never draws more than its limit out of its inner buffer (C12)
                if let (Spec::Take(_, _, inner), Some(lb)) = (spec, lim_before) {
                    if !has_endless(spec) {
                        let xl = inner.model().len();
                        for (r1, _) in root.peek_children() {
                            let taken = xl - r1.min(xl);
                            if taken > consumed.saturating_add(lb) {
                                report(o, spec, "take-overdrawn-by-refused-request", case, &format!("after the refused {op:?} the inner of the Take has lost {taken} bytes although only {consumed} went through and the limit was {lb}; ops={ops:?}"), true);
                                return crate::rng::fnv_u64(dg, 9);
                            }
                        }
                        // ... and never gives up limit for bytes it did not draw: limit() may have dropped by at most
                        // what the inner buffer lost during the refused call
                        if let Some(la) = root.limit_opt() {
                            let r_after = root.peek_children().first().map(|c| c.0).unwrap_or(0);
                            let r_before = xl.saturating_sub(consumed.min(xl));
                            let drawn = r_before.saturating_sub(r_after.min(r_before));
                            if lb.saturating_sub(la) > drawn && root_limit.is_none() {
                                report(o, spec, "take-limit-lost-by-refused-request", case, &format!("the refused {op:?} lowered limit() from {lb} to {la} although the inner buffer lost only {drawn} bytes; ops={ops:?}"), true);
                                return crate::rng::fnv_u64(dg, 9);
                            }
                        }
                        o.inc("refused_take_checks");
                    }
                }
                // a refused request that would have *delivered* bytes (copy_to_slice, copy_to_bytes, get_X) delivered
                // none, so no inner buffer may have moved: the tree must still denote the same sequence (C12: inner
                // buffers advance by exactly the bytes that went through). `advance` is different: it discards, and
                // Chain::advance legitimately discards all of `a` before `b` refuses the rest.
                if matches!(op, ROp::CopySlice(_) | ROp::CopyBytes(_) | ROp::GetU8 | ROp::GetU32Le) && !has_endless(spec) {
                    o.inc("refused_delivery_checks");
                    let rem = crate::util::catch(|| root.remaining());
                    if rem != Ok(rest.len()) {
                        report(o, spec, "refused-request-consumed", case, &format!("the refused {op:?} delivered nothing but left remaining()={rem:?} where {} bytes had been left; ops={ops:?}", rest.len()), true);
                        return crate::rng::fnv_u64(dg, 9);
                    }
                }
                return crate::rng::fnv_u64(dg, 2);
            }
            Step::Bad(sig, d) => {
                report(o, spec, &sig, case, &format!("{d}; ops={ops:?} path={}", super::getters::PATHS[path]), false);
                return crate::rng::fnv_u64(dg, 3);
            }
        }
    }
    match fin {
        Final::Dismantle => {}
        Final::IntoIter => {
            let it = bytes::buf::IntoIter::new(root);
            let hint = it.size_hint();
            let mut it = it;
            let k = rest.len() / 2;
            let got: Vec<u8> = it.by_ref().take(k).collect();
            o.inc("into_iter_runs");
            if got[..] != rest[..k] || hint != (rest.len(), Some(rest.len())) {
                report(o, spec, "into_iter", case, &format!("into_iter yielded {:?} (size_hint {:?}), expected {:?}", got, hint, &rest[..k]), false);
                return crate::rng::fnv_u64(dg, 5);
            }
            consumed += k;
            if it.get_ref().remaining() != rest.len() - k || it.get_mut().remaining() != rest.len() - k {
                report(o, spec, "into_iter-get_ref", case, "IntoIter::get_ref()/get_mut() do not show the buffer advanced by the items taken", true);
                return crate::rng::fnv_u64(dg, 5);
            }
            root = it.into_inner();
        }
        Final::ReaderRead(k) => {
            let mut rd = root.reader();
            let mut dst = vec![0u8; k];
            let r = rd.read(&mut dst);
            let want = k.min(rest.len());
            o.inc("reader_ops");
            match r {
                Ok(n) if n == want && dst[..n] == rest[..n] => {}
                other => {
                    report(o, spec, "reader-read", case, &format!("Reader::read(buf of {k}) with {} available returned {:?} / {:?}", rest.len(), other, &dst[..want.min(12)]), true);
                    return crate::rng::fnv_u64(dg, 5);
                }
            }
            if rd.get_ref().remaining() != rest.len() - want || rd.get_mut().remaining() != rest.len() - want {
                report(o, spec, "reader-get_ref", case, "Reader::get_ref().remaining() after read is wrong", true);
                return crate::rng::fnv_u64(dg, 5);
            }
            consumed += want;
            root = rd.into_inner();
        }
        Final::ReaderBufRead(k) => {
            let mut rd = root.reader();
            o.inc("reader_ops");
            let fb = rd.fill_buf().map(|s| s.to_vec());
            match fb {
                Ok(s) if s.len() <= rest.len() && s[..] == rest[..s.len()] && (!s.is_empty() || rest.is_empty()) => {
                    let k = k.min(s.len());
                    rd.consume(k);
                    consumed += k;
                }
                other => {
                    report(o, spec, "reader-fill_buf", case, &format!("Reader::fill_buf returned {:?}", other), true);
                    return crate::rng::fnv_u64(dg, 5);
                }
            }
            root = rd.into_inner();
        }
        Final::ReaderExact(k) => {
            let k = k.min(rest.len());
            let mut rd = root.reader();
            let mut dst = vec![0u8; k];
            let r = rd.read_exact(&mut dst);
            o.inc("reader_ops");
            if r.is_err() || dst[..] != rest[..k] {
                report(o, spec, "reader-read_exact", case, &format!("read_exact({k}) with {} available returned {:?} / {:?}", rest.len(), r.map_err(|e| e.to_string()), &dst[..k.min(12)]), true);
                return crate::rng::fnv_u64(dg, 5);
            }
            consumed += k;
            root = rd.into_inner();
        }
        Final::ReaderToEnd => {
            let mut rd = root.reader();
            let mut v = Vec::new();
            let r = rd.read_to_end(&mut v);
            o.inc("reader_ops");
            match r {
                Ok(n) if n == rest.len() && v == rest => {}
                other => {
                    report(o, spec, "reader-read_to_end", case, &format!("read_to_end returned {:?} with {} bytes, expected {}", other.map_err(|e| e.to_string()), v.len(), rest.len()), true);
                    return crate::rng::fnv_u64(dg, 5);
                }
            }
            consumed += rest.len();
            root = rd.into_inner();
        }
    }
    let want_limit = root_limit.map(|l| l - (consumed - inner_consumed_at_set).min(l));
    let mut errs = Vec::new();
    let mut cnt = 0u64;
    dismantle_check(spec, root, consumed, want_limit, &mut errs, &mut cnt);
    o.add("dismantled_nodes", cnt);
    if let Some(e) = errs.first() {
        report(o, spec, "dismantle", case, &format!("{e}; after {consumed} bytes; ops={ops:?} fin={fin:?}"), true);
        return crate::rng::fnv_u64(dg, 7);
    }
    crate::rng::fnv_u64(dg, 11 + consumed as u64)
}

// ------------------------------------------------------------------ generators

pub fn data(n: usize, salt: u64) -> Vec<u8> {
    (0..n).map(|i| (crate::rng::mix2(salt, i as u64) >> 23) as u8).collect()
}

pub fn gen_leaf(r: &mut Rng, d: Vec<u8>) -> Spec {
    let n = d.len();
    match r.below(7) {
        0 => Spec::Slice(d),
        1 => Spec::Bytes(r.below(5), d),
        2 => Spec::BytesMut(r.below(3), d),
        3 => {
            if n == 0 && r.chance(1, 2) {
                // position beyond the end: the cursor is empty (saturating arithmetic)
                let v = data(r.below(4), 98);
                let p = (v.len() + 1 + r.below(3)) as u64;
                if r.chance(1, 3) {
                    // far beyond the end: u64::MAX, or 2^32 + k with k inside the data (a position whose
                    // low 32 bits alone would look valid on a 32-bit target)
                    let v = data(2 + r.below(6), 97);
                    let p = if r.chance(1, 3) { u64::MAX - r.below(2) as u64 } else { (1u64 << 32) * (1 + r.below(3) as u64) + r.below(v.len() + 1) as u64 };
                    return Spec::Cursor(p, v);
                }
                return Spec::Cursor(p, v);
            }
            let p = r.below(4);
            let mut v = data(p, 99);
            v.extend(d);
            Spec::Cursor(p as u64, v)
        }
        4 => Spec::Deque(r.below(n + 1), d),
        _ => {
            // random cuts, sometimes with empty chunks
            let mut parts = Vec::new();
            let mut i = 0;
            while i < n {
                let k = 1 + r.below((n - i).min(5));
                parts.push(d[i..i + k].to_vec());
                i += k;
                if r.chance(1, 6) {
                    parts.push(Vec::new());
                }
            }
            if r.chance(1, 6) {
                parts.insert(0, Vec::new());
            }
            Spec::Seg(r.below(3) as u8, parts)
        }
    }
}

pub fn gen_tree(r: &mut Rng, depth: usize, n: usize, salt: &mut u64) -> Spec {
    if depth == 0 || r.chance(1, 4) {
        *salt += 1;
        return gen_leaf(r, data(n, *salt));
    }
    if n <= 1000 && r.chance(1, 12) {
        // a small window over header ++ endless zeros (saturating arithmetic in Chain / Take)
        let la = r.below(n + 1).min(8);
        let a = gen_tree(r, depth.saturating_sub(2), la, salt);
        let inner = Spec::Chain(r.chance(1, 4), Box::new(a), Box::new(Spec::Endless));
        return Spec::Take(n, r.chance(1, 4), Box::new(inner));
    }
    if r.chance(1, 2) {
        let la = r.below(n + 1);
        let a = gen_tree(r, depth - 1, la, salt);
        let b = gen_tree(r, depth - 1, n - la, salt);
        Spec::Chain(r.chance(1, 4), Box::new(a), Box::new(b))
    } else {
        // the inner holds n or more bytes; the limit is 0 / inside / equal / beyond / usize::MAX
        let (inner_n, limit) = match r.below(6) {
            0 => (n + r.below(4), n), // limit inside or equal
            1 => (n, n),
            2 => (n, n + 1 + r.below(5)),
            3 => (n, usize::MAX),
            4 if n == 0 => (r.below(5), 0),
            _ => (n + 1 + r.below(6), n),
        };
        let x = gen_tree(r, depth - 1, inner_n, salt);
        Spec::Take(limit, r.chance(1, 4), Box::new(x))
    }
}

pub fn gen_op(r: &mut Rng, rest: usize, root_is_take: bool) -> ROp {
    let k = match r.below(6) {
        0 => 0,
        1 => 1.min(rest),
        2 => rest,
        3 => rest / 2,
        4 if r.chance(1, 3) => rest + 1 + r.below(3),
        _ => r.below(rest + 1),
    };
    // counts near the top of usize: position + count arithmetic inside the implementor must not wrap
    let huge = if r.chance(1, 24) {
        Some(match r.below(4) {
            0 => usize::MAX,
            1 => usize::MAX - r.below(40),
            2 => usize::MAX / 2 + 1 + r.below(3),
            _ => (usize::MAX >> 1) - r.below(3),
        })
    } else {
        None
    };
    match r.below(if root_is_take { 10 } else { 9 }) {
        0 => ROp::Rem,
        1 => ROp::Chunk,
        2 | 3 => ROp::Adv(huge.unwrap_or(k)),
        6 if huge.is_some() => ROp::CopyBytes(huge.unwrap()),
        4 => ROp::Vect(*r.pick(&[0usize, 1, 2, 3, 5, 17, 32])),
        5 if r.chance(1, 2) => ROp::TryCopySlice(k),
        5 => ROp::CopySlice(k),
        6 => ROp::CopyBytes(k),
        7 => ROp::GetU8,
        8 => ROp::GetU32Le,
        _ => ROp::SetLimit(*r.pick(&[0usize, 1, rest / 2, rest, rest + 3, usize::MAX])),
    }
}

/// all ways of cutting `d` into non-empty chunks, with optional empty chunks inserted
pub fn fragmentations(d: &[u8]) -> Vec<Vec<Vec<u8>>> {
    let n = d.len();
    let mut out = Vec::new();
    let masks = if n == 0 { 1 } else { 1usize << (n - 1) };
    for m in 0..masks {
        let mut parts = Vec::new();
        let mut cur = Vec::new();
        for (i, &b) in d.iter().enumerate() {
            cur.push(b);
            if i + 1 == n || (m >> i) & 1 == 1 {
                parts.push(std::mem::take(&mut cur));
            }
        }
        let np = parts.len();
        out.push(parts.clone());
        // one or two empty chunks at front / middle / back
        let mut f = parts.clone();
        f.insert(0, Vec::new());
        out.push(f);
        let mut b = parts.clone();
        b.push(Vec::new());
        out.push(b);
        if np >= 2 {
            let mut mid = parts.clone();
            mid.insert(np / 2, Vec::new());
            mid.insert(np / 2, Vec::new());
            out.push(mid);
        }
    }
    out
}
