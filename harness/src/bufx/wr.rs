//! E3: writer trees (`Box<dyn MutX>` over the crate's real BufMut implementors and adapters).
use super::BX;
use bytes::buf::{Chain, Limit};
use bytes::{BufMut, BytesMut};
use core::mem::MaybeUninit;

pub const GUARD: usize = 16;
pub const GUARD_BYTE: u8 = 0xA5;
pub const FILL_BYTE: u8 = 0x3C;

/// What a leaf looks like after the writes.
#[derive(Debug)]
pub enum LeafState {
    /// growable: full current contents
    Grow(Vec<u8>),
    /// fixed: address and length of the *remaining* window
    Fixed(usize, usize),
}

pub trait MutX: BufMut {
    fn collect(self: Box<Self>, out: &mut Vec<LeafState>, limits: &mut Vec<usize>);
    /// `BufMut::put` needs `Self: Sized`; this calls it on the concrete type
    fn put_buf(&mut self, src: BX);
    fn set_limit_opt(&mut self, _l: usize) -> bool {
        false
    }
    fn limit_opt(&self) -> Option<usize> {
        None
    }
    /// remaining_mut() of the children through get_ref()/get_mut() (first_ref/last_ref ... for Chain)
    fn peek(&mut self) -> Vec<(usize, usize)> {
        Vec::new()
    }
}
pub type MX = Box<dyn MutX>;

impl MutX for Vec<u8> {
    fn collect(self: Box<Self>, out: &mut Vec<LeafState>, _l: &mut Vec<usize>) {
        out.push(LeafState::Grow(*self));
    }
    fn put_buf(&mut self, src: BX) {
        self.put(src)
    }
}
impl MutX for BytesMut {
    fn collect(self: Box<Self>, out: &mut Vec<LeafState>, _l: &mut Vec<usize>) {
        out.push(LeafState::Grow(self.to_vec()));
    }
    fn put_buf(&mut self, src: BX) {
        self.put(src)
    }
}
impl MutX for &'static mut [u8] {
    fn collect(self: Box<Self>, out: &mut Vec<LeafState>, _l: &mut Vec<usize>) {
        out.push(LeafState::Fixed(self.as_ptr() as usize, self.len()));
    }
    fn put_buf(&mut self, src: BX) {
        self.put(src)
    }
}
impl MutX for &'static mut [MaybeUninit<u8>] {
    fn collect(self: Box<Self>, out: &mut Vec<LeafState>, _l: &mut Vec<usize>) {
        out.push(LeafState::Fixed(self.as_ptr() as usize, self.len()));
    }
    fn put_buf(&mut self, src: BX) {
        self.put(src)
    }
}
impl MutX for Chain<MX, MX> {
    fn peek(&mut self) -> Vec<(usize, usize)> {
        vec![(self.first_ref().remaining_mut(), self.first_mut().remaining_mut()), (self.last_ref().remaining_mut(), self.last_mut().remaining_mut())]
    }
    fn collect(self: Box<Self>, out: &mut Vec<LeafState>, l: &mut Vec<usize>) {
        let (a, b) = (*self).into_inner();
        a.collect(out, l);
        b.collect(out, l);
    }
    fn put_buf(&mut self, src: BX) {
        self.put(src)
    }
}
impl MutX for Limit<MX> {
    fn peek(&mut self) -> Vec<(usize, usize)> {
        vec![(self.get_ref().remaining_mut(), self.get_mut().remaining_mut())]
    }
    fn collect(self: Box<Self>, out: &mut Vec<LeafState>, l: &mut Vec<usize>) {
        l.push(Limit::limit(&*self));
        (*self).into_inner().collect(out, l);
    }
    fn put_buf(&mut self, src: BX) {
        self.put(src)
    }
    fn set_limit_opt(&mut self, lim: usize) -> bool {
        self.set_limit(lim);
        true
    }
    fn limit_opt(&self) -> Option<usize> {
        Some(self.limit())
    }
}
impl MutX for Limit<&'static mut dyn MutX> {
    fn collect(self: Box<Self>, out: &mut Vec<LeafState>, l: &mut Vec<usize>) {
        l.push(Limit::limit(&*self));
        let r: &'static mut dyn MutX = (*self).into_inner();
        let b: MX = unsafe { Box::from_raw(r as *mut dyn MutX) };
        b.collect(out, l);
    }
    fn put_buf(&mut self, src: BX) {
        self.put(src)
    }
    fn limit_opt(&self) -> Option<usize> {
        Some(self.limit())
    }
}

#[derive(Clone, Debug)]
pub enum WSpec {
    /// initial contents length, spare capacity
    Vec(usize, usize),
    /// kind (0 inline, 1 inline+offset, 2 shared, 3 shared+offset+cut capacity, 4..=6 converted back from a
    /// Bytes with a front offset: frozen shared BytesMut / Vec with spare / exact boxed slice), initial length, spare
    BM(usize, usize, usize),
    Slice(usize),
    Uninit(usize),
    Chain(Box<WSpec>, Box<WSpec>),
    /// limit, through `&mut dyn`, inner
    Limit(usize, bool, Box<WSpec>),
}

impl WSpec {
    /// how many bytes the target can still accept (None = practically unbounded)
    pub fn room(&self) -> Option<usize> {
        let r = match self {
            WSpec::Vec(..) | WSpec::BM(..) => None,
            WSpec::Slice(n) | WSpec::Uninit(n) => Some(*n),
            WSpec::Chain(a, b) => match (a.room(), b.room()) {
                (Some(x), Some(y)) => Some(x.saturating_add(y)),
                _ => None,
            },
            WSpec::Limit(l, _, x) => Some(match x.room() {
                Some(r) => r.min(*l),
                None => *l,
            }),
        };
        // anything this large behaves like a growable target
        r.filter(|&v| v < super::HUGE)
    }
    pub fn shape(&self) -> String {
        match self {
            WSpec::Vec(i, s) => format!("Vec{}{}", if *i > 0 { "+init" } else { "" }, if *s > 0 { "+spare" } else { "" }),
            WSpec::BM(k, i, s) => format!("BM{k}{}{}", if *i > 0 { "+init" } else { "" }, if *s > 0 { "+spare" } else { "" }),
            WSpec::Slice(_) => "slice".into(),
            WSpec::Uninit(_) => "uninit".into(),
            WSpec::Chain(a, b) => format!("Chain({},{})", a.shape(), b.shape()),
            WSpec::Limit(_, m, x) => format!("Limit{}({})", if *m { "&" } else { "" }, x.shape()),
        }
    }
}

/// One fixed region inside a guarded arena.
pub struct Arena {
    pub base: *mut u8,
    pub total: usize,
    pub start: usize, // address of the region
    pub size: usize,
    pub uninit: bool,
}

/// Expected final state of one leaf, in order.
pub struct LeafInfo {
    pub spec: WSpec,
    pub init: Vec<u8>,
    pub arena: Option<Arena>,
}

pub fn init_bytes(n: usize, salt: usize) -> Vec<u8> {
    (0..n).map(|i| (0x40 + (i + salt) % 23) as u8).collect()
}

pub fn build(s: &WSpec, leaves: &mut Vec<LeafInfo>) -> MX {
    match s {
        WSpec::Vec(i, sp) => {
            let init = init_bytes(*i, 1);
            let mut v = Vec::with_capacity(i + sp);
            v.extend_from_slice(&init);
            leaves.push(LeafInfo { spec: s.clone(), init, arena: None });
            Box::new(v)
        }
        WSpec::BM(k, i, sp) => {
            let init = init_bytes(*i, 2);
            let m = match k % 7 {
                4 => {
                    // round trip through Bytes: shared BytesMut -> freeze -> advance -> back (unique, front offset)
                    let mut m = BytesMut::with_capacity(i + sp + 7);
                    m.extend_from_slice(&[0; 7]);
                    m.extend_from_slice(&init);
                    drop(m.split_to(2));
                    let mut b = m.freeze();
                    bytes::Buf::advance(&mut b, 5);
                    BytesMut::from(b)
                }
                5 => {
                    // Vec with spare capacity -> Bytes (shared repr) -> advance -> BytesMut (unique)
                    let mut v = Vec::with_capacity(i + sp + 3);
                    v.extend_from_slice(&[0; 3]);
                    v.extend_from_slice(&init);
                    let mut b = bytes::Bytes::from(v);
                    bytes::Buf::advance(&mut b, 3);
                    BytesMut::from(b)
                }
                6 => {
                    // exact boxed slice -> promotable Bytes -> advance -> BytesMut (no spare capacity)
                    let mut v = vec![0u8; 3];
                    v.extend_from_slice(&init);
                    let mut b = bytes::Bytes::from(v.into_boxed_slice());
                    bytes::Buf::advance(&mut b, 3);
                    BytesMut::from(b)
                }
                3 => {
                    // shared, unique, front offset, capacity cut by split_off (reserve can reclaim in place)
                    let mut m = BytesMut::with_capacity(i + sp + 24);
                    m.extend_from_slice(&[0; 6]);
                    m.extend_from_slice(&init);
                    drop(m.split_to(6));
                    drop(m.split_off(i + sp));
                    m
                }
                0 => {
                    let mut m = BytesMut::with_capacity(i + sp);
                    m.extend_from_slice(&init);
                    m
                }
                1 => {
                    let mut m = BytesMut::with_capacity(i + sp + 5);
                    m.extend_from_slice(&[0; 5]);
                    m.extend_from_slice(&init);
                    bytes::Buf::advance(&mut m, 5);
                    m
                }
                _ => {
                    let mut m = BytesMut::with_capacity(i + sp + 4);
                    m.extend_from_slice(&[0; 4]);
                    m.extend_from_slice(&init);
                    let _ = m.split_to(4);
                    m
                }
            };
            leaves.push(LeafInfo { spec: s.clone(), init, arena: None });
            Box::new(m)
        }
        WSpec::Slice(n) | WSpec::Uninit(n) => {
            let total = n + 2 * GUARD;
            let base: *mut u8 = Box::into_raw(vec![GUARD_BYTE; total].into_boxed_slice()) as *mut u8;
            let uninit = matches!(s, WSpec::Uninit(_));
            // everything is derived from the raw base pointer so that the guards can be read later
            let region: &'static mut [u8] = unsafe { core::slice::from_raw_parts_mut(base.add(GUARD), *n) };
            for b in region.iter_mut() {
                *b = FILL_BYTE;
            }
            let start = region.as_ptr() as usize;
            leaves.push(LeafInfo { spec: s.clone(), init: Vec::new(), arena: Some(Arena { base, total, start, size: *n, uninit }) });
            if uninit {
                // SAFETY: u8 and MaybeUninit<u8> have the same layout; the region is initialised
                let r: &'static mut [MaybeUninit<u8>] = unsafe { core::slice::from_raw_parts_mut(region.as_mut_ptr() as *mut MaybeUninit<u8>, *n) };
                Box::new(r)
            } else {
                Box::new(region)
            }
        }
        WSpec::Chain(a, b) => {
            let ia = build(a, leaves);
            let ib = build(b, leaves);
            Box::new(ia.chain_mut(ib))
        }
        WSpec::Limit(l, by_mut, x) => {
            let inner = build(x, leaves);
            if *by_mut {
                let r: &'static mut dyn MutX = Box::leak(inner);
                Box::new(r.limit(*l))
            } else {
                Box::new(inner.limit(*l))
            }
        }
    }
}

impl Arena {
    /// guards intact?
    pub fn guards_ok(&self) -> bool {
        unsafe {
            let a = core::slice::from_raw_parts(self.base, self.total);
            a[..GUARD].iter().all(|&b| b == GUARD_BYTE) && a[GUARD + self.size..].iter().all(|&b| b == GUARD_BYTE)
        }
    }
    pub fn region(&self) -> &[u8] {
        unsafe { core::slice::from_raw_parts(self.base.add(GUARD), self.size) }
    }
    pub fn free(self) {
        unsafe {
            drop(Box::from_raw(core::ptr::slice_from_raw_parts_mut(self.base, self.total)));
        }
    }
}
