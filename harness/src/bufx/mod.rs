//! E3: reader trees built from the crate's real adapters (`Box<dyn BufX>` at every level).
use bytes::buf::{Chain, Take};
use bytes::{Buf, Bytes, BytesMut};
use std::collections::VecDeque;
use std::io::{Cursor, IoSlice};

pub mod faults;
pub mod getters;
pub mod rd;
pub mod wr;
pub mod wrt;

/// A `Buf` that can be taken apart again with the crate's own accessors.
pub trait BufX: Buf {
    /// children in order (the crate's `into_inner` / `get_ref`), empty for leaves
    fn dismantle(self: Box<Self>) -> Vec<Box<dyn BufX>>;
    fn limit_opt(&self) -> Option<usize> {
        None
    }
    fn set_limit_opt(&mut self, _l: usize) -> bool {
        false
    }
    /// remaining() of the children as seen through get_ref()/first_ref()/last_ref() and the *_mut twins
    fn peek_children(&mut self) -> Vec<(usize, usize)> {
        Vec::new()
    }
    fn tname(&self) -> &'static str;
}

pub type BX = Box<dyn BufX>;

/// sizes at or above this behave like "unbounded"
pub const HUGE: usize = usize::MAX >> 8;

impl BufX for &'static [u8] {
    fn dismantle(self: Box<Self>) -> Vec<BX> {
        Vec::new()
    }
    fn tname(&self) -> &'static str {
        "slice"
    }
}
impl BufX for Bytes {
    fn dismantle(self: Box<Self>) -> Vec<BX> {
        Vec::new()
    }
    fn tname(&self) -> &'static str {
        "Bytes"
    }
}
impl BufX for BytesMut {
    fn dismantle(self: Box<Self>) -> Vec<BX> {
        Vec::new()
    }
    fn tname(&self) -> &'static str {
        "BytesMut"
    }
}
impl BufX for Cursor<Vec<u8>> {
    fn dismantle(self: Box<Self>) -> Vec<BX> {
        Vec::new()
    }
    fn tname(&self) -> &'static str {
        "Cursor"
    }
}
impl BufX for VecDeque<u8> {
    fn dismantle(self: Box<Self>) -> Vec<BX> {
        Vec::new()
    }
    fn tname(&self) -> &'static str {
        "VecDeque"
    }
}

/// Harness `Buf` made of arbitrary segments (empty ones allowed). Obeys the documented laws.
pub struct Seg {
    pub chunks: VecDeque<Vec<u8>>,
    pub pos: usize, // consumed bytes of the front chunk
    pub multi: bool,
}
impl Seg {
    pub fn new(parts: Vec<Vec<u8>>, multi: bool) -> Seg {
        let mut s = Seg { chunks: parts.into(), pos: 0, multi };
        s.norm();
        s
    }
    fn norm(&mut self) {
        while let Some(f) = self.chunks.front() {
            if self.pos >= f.len() {
                self.chunks.pop_front();
                self.pos = 0;
            } else {
                break;
            }
        }
    }
}
impl Buf for Seg {
    fn remaining(&self) -> usize {
        self.chunks.iter().map(|c| c.len()).sum::<usize>() - self.pos
    }
    fn chunk(&self) -> &[u8] {
        match self.chunks.front() {
            Some(f) => &f[self.pos..],
            None => &[],
        }
    }
    fn advance(&mut self, mut cnt: usize) {
        assert!(cnt <= self.remaining(), "Seg: advance past the end");
        while cnt > 0 {
            let f = self.chunks.front().unwrap().len() - self.pos;
            let k = f.min(cnt);
            self.pos += k;
            cnt -= k;
            self.norm();
        }
    }
    fn chunks_vectored<'a>(&'a self, dst: &mut [IoSlice<'a>]) -> usize {
        if !self.multi {
            // the crate's default implementation
            if dst.is_empty() {
                return 0;
            }
            if self.has_remaining() {
                dst[0] = IoSlice::new(self.chunk());
                return 1;
            }
            return 0;
        }
        let mut n = 0;
        for (i, c) in self.chunks.iter().enumerate() {
            if n == dst.len() {
                break;
            }
            let s = if i == 0 { &c[self.pos..] } else { &c[..] };
            if s.is_empty() {
                continue;
            }
            dst[n] = IoSlice::new(s);
            n += 1;
        }
        n
    }
}
impl BufX for Seg {
    fn dismantle(self: Box<Self>) -> Vec<BX> {
        Vec::new()
    }
    fn tname(&self) -> &'static str {
        if self.multi {
            "SegMulti"
        } else {
            "Seg"
        }
    }
}

/// A practically endless source of zero bytes: `remaining()` starts at `usize::MAX`. Used below
/// a `Take` to exercise saturating arithmetic in the adapters.
pub struct Endless {
    pub consumed: usize,
}
static ZEROS: [u8; 64] = [0; 64];
impl Buf for Endless {
    fn remaining(&self) -> usize {
        usize::MAX - self.consumed
    }
    fn chunk(&self) -> &[u8] {
        &ZEROS[..]
    }
    fn advance(&mut self, cnt: usize) {
        assert!(cnt <= self.remaining());
        self.consumed += cnt;
    }
}
impl BufX for Endless {
    fn dismantle(self: Box<Self>) -> Vec<BX> {
        Vec::new()
    }
    fn tname(&self) -> &'static str {
        "Endless"
    }
}

/// Same as `Seg` but leaves `chunks_vectored` to the trait's default implementation.
pub struct SegD(pub Seg);
impl Buf for SegD {
    fn remaining(&self) -> usize {
        self.0.remaining()
    }
    fn chunk(&self) -> &[u8] {
        self.0.chunk()
    }
    fn advance(&mut self, cnt: usize) {
        self.0.advance(cnt)
    }
}
impl BufX for SegD {
    fn dismantle(self: Box<Self>) -> Vec<BX> {
        Vec::new()
    }
    fn tname(&self) -> &'static str {
        "SegDefault"
    }
}

impl BufX for Take<BX> {
    fn dismantle(self: Box<Self>) -> Vec<BX> {
        vec![(*self).into_inner()]
    }
    fn peek_children(&mut self) -> Vec<(usize, usize)> {
        vec![(self.get_ref().remaining(), self.get_mut().remaining())]
    }
    fn limit_opt(&self) -> Option<usize> {
        Some(self.limit())
    }
    fn set_limit_opt(&mut self, l: usize) -> bool {
        self.set_limit(l);
        true
    }
    fn tname(&self) -> &'static str {
        "Take"
    }
}
impl BufX for Take<&'static mut dyn BufX> {
    fn dismantle(self: Box<Self>) -> Vec<BX> {
        let r: &'static mut dyn BufX = (*self).into_inner();
        // SAFETY: the reference was produced by Box::leak in `build`
        vec![unsafe { Box::from_raw(r as *mut dyn BufX) }]
    }
    fn limit_opt(&self) -> Option<usize> {
        Some(self.limit())
    }
    fn set_limit_opt(&mut self, l: usize) -> bool {
        self.set_limit(l);
        true
    }
    fn tname(&self) -> &'static str {
        "TakeMutRef"
    }
}
impl BufX for Chain<BX, BX> {
    fn dismantle(self: Box<Self>) -> Vec<BX> {
        let (a, b) = (*self).into_inner();
        vec![a, b]
    }
    fn peek_children(&mut self) -> Vec<(usize, usize)> {
        vec![(self.first_ref().remaining(), self.first_mut().remaining()), (self.last_ref().remaining(), self.last_mut().remaining())]
    }
    fn tname(&self) -> &'static str {
        "Chain"
    }
}
impl BufX for Chain<&'static mut dyn BufX, BX> {
    fn dismantle(self: Box<Self>) -> Vec<BX> {
        let (a, b) = (*self).into_inner();
        vec![unsafe { Box::from_raw(a as *mut dyn BufX) }, b]
    }
    fn tname(&self) -> &'static str {
        "ChainMutRef"
    }
}

// ------------------------------------------------------------------ specs

#[derive(Clone, Debug)]
pub enum Spec {
    Slice(Vec<u8>),
    Bytes(usize, Vec<u8>),
    BytesMut(usize, Vec<u8>),
    Cursor(u64, Vec<u8>), // position (may lie far beyond the data, or beyond usize on 32-bit targets), whole vector
    Deque(usize, Vec<u8>),  // rotation, contents
    Seg(u8, Vec<Vec<u8>>),  // 0 = own default-like vectored, 1 = multi-slice vectored, 2 = trait default
    /// endless zeros (only below a Take with a small limit); its model is a long-enough prefix
    Endless,
    Take(usize, bool, Box<Spec>),
    Chain(bool, Box<Spec>, Box<Spec>),
}

impl Spec {
    /// the byte sequence this tree denotes
    pub fn model(&self) -> Vec<u8> {
        match self {
            Spec::Slice(v) | Spec::Bytes(_, v) | Spec::BytesMut(_, v) | Spec::Deque(_, v) => v.clone(),
            Spec::Cursor(p, v) => v[(*p).min(v.len() as u64) as usize..].to_vec(),
            Spec::Seg(_, parts) => parts.concat(),
            Spec::Endless => vec![0u8; 4096],
            Spec::Take(l, _, x) => {
                let m = x.model();
                let n = (*l).min(m.len());
                m[..n].to_vec()
            }
            Spec::Chain(_, a, b) => {
                let mut m = a.model();
                m.extend(b.model());
                m
            }
        }
    }
    pub fn shape(&self) -> String {
        match self {
            Spec::Slice(_) => "slice".into(),
            Spec::Bytes(r, _) => format!("Bytes{r}"),
            Spec::BytesMut(r, _) => format!("BytesMut{r}"),
            Spec::Cursor(..) => "Cursor".into(),
            Spec::Deque(..) => "Deque".into(),
            Spec::Seg(k, p) => format!("Seg{k}x{}", p.len().min(3)),
            Spec::Endless => "Endless".into(),
            Spec::Take(_, m, x) => format!("Take{}({})", if *m { "&" } else { "" }, x.shape()),
            Spec::Chain(m, a, b) => format!("Chain{}({},{})", if *m { "&" } else { "" }, a.shape(), b.shape()),
        }
    }
    pub fn depth(&self) -> usize {
        match self {
            Spec::Take(_, _, x) => 1 + x.depth(),
            Spec::Chain(_, a, b) => 1 + a.depth().max(b.depth()),
            _ => 0,
        }
    }
    /// positions (in the flat model) at which a chunk / adapter boundary lies
    pub fn boundaries(&self, base: usize, out: &mut Vec<usize>) {
        match self {
            Spec::Seg(_, parts) => {
                let mut p = base;
                for c in parts {
                    p += c.len();
                    out.push(p);
                }
            }
            Spec::Deque(rot, v) => {
                if *rot > 0 && *rot < v.len() {
                    out.push(base + (v.len() - rot));
                }
                out.push(base + v.len());
            }
            Spec::Take(_, _, x) => {
                x.boundaries(base, out);
                out.push(base + self.model().len());
            }
            Spec::Chain(_, a, b) => {
                a.boundaries(base, out);
                let la = a.model().len();
                out.push(base + la);
                b.boundaries(base + la, out);
            }
            _ => out.push(base + self.model().len()),
        }
    }
}

pub fn mk_bytes(rep: usize, x: &[u8]) -> Bytes {
    match rep % 5 {
        0 => Bytes::from_static(Box::leak(x.to_vec().into_boxed_slice())),
        1 => {
            let mut v = Vec::with_capacity(x.len());
            v.extend_from_slice(x);
            Bytes::from(v)
        }
        2 => {
            let mut v = Vec::with_capacity(x.len() + 3);
            v.extend_from_slice(x);
            Bytes::from(v)
        }
        3 => {
            let mut v = vec![9u8, 9, 9];
            v.extend_from_slice(x);
            v.push(7);
            Bytes::from(v).slice(3..3 + x.len())
        }
        _ => Bytes::from_owner(x.to_vec()),
    }
}
pub fn mk_mut(rep: usize, x: &[u8]) -> BytesMut {
    match rep % 3 {
        0 => BytesMut::from(x),
        1 => {
            let mut m = BytesMut::with_capacity(x.len() + 8);
            m.extend_from_slice(&[1, 2, 3]);
            m.extend_from_slice(x);
            m.advance(3);
            m
        }
        _ => {
            let mut m = BytesMut::with_capacity(x.len() + 4);
            m.extend_from_slice(&[5, 5]);
            m.extend_from_slice(x);
            let _ = m.split_to(2);
            m
        }
    }
}

pub fn rd_has_endless(s: &Spec) -> bool {
    match s {
        Spec::Endless => true,
        Spec::Take(_, _, x) => rd_has_endless(x),
        Spec::Chain(_, a, b) => rd_has_endless(a) || rd_has_endless(b),
        _ => false,
    }
}

pub fn build(s: &Spec) -> BX {
    match s {
        Spec::Slice(v) => {
            let l: &'static [u8] = Box::leak(v.clone().into_boxed_slice());
            Box::new(l)
        }
        Spec::Bytes(r, v) => Box::new(mk_bytes(*r, v)),
        Spec::BytesMut(r, v) => Box::new(mk_mut(*r, v)),
        Spec::Cursor(p, v) => {
            let mut c = Cursor::new(v.clone());
            c.set_position(*p);
            Box::new(c)
        }
        Spec::Deque(rot, v) => {
            // make the ring wrap: fill to capacity, pop from the front, push at the back
            let n = v.len();
            let mut d: VecDeque<u8> = VecDeque::with_capacity(n.max(1));
            let cap = d.capacity();
            let rot = if n == 0 { 0 } else { rot % (n + 1) };
            // occupy `cap - (n - rot)`.. so that the last `rot` elements wrap around
            let lead = cap - (n - rot.min(n));
            for _ in 0..lead {
                d.push_back(0xEE);
            }
            for &b in &v[..n - rot.min(n)] {
                d.push_back(b);
            }
            for _ in 0..lead {
                d.pop_front();
            }
            for &b in &v[n - rot.min(n)..] {
                d.push_back(b);
            }
            Box::new(d)
        }
        Spec::Endless => Box::new(Endless { consumed: 0 }),
        Spec::Seg(k, parts) => match k {
            2 => Box::new(SegD(Seg::new(parts.clone(), false))),
            1 => Box::new(Seg::new(parts.clone(), true)),
            _ => Box::new(Seg::new(parts.clone(), false)),
        },
        Spec::Take(l, by_mut, x) => {
            let inner = build(x);
            if *by_mut {
                let r: &'static mut dyn BufX = Box::leak(inner);
                Box::new(r.take(*l))
            } else {
                Box::new(inner.take(*l))
            }
        }
        Spec::Chain(by_mut, a, b) => {
            let (ia, ib) = (build(a), build(b));
            if *by_mut {
                let r: &'static mut dyn BufX = Box::leak(ia);
                Box::new(r.chain(ib))
            } else {
                Box::new(ia.chain(ib))
            }
        }
    }
}

/// Read everything that is left in `b` without using anything but the three required methods.
pub fn drain_all(b: &mut dyn BufX) -> Vec<u8> {
    let mut out = Vec::new();
    let mut guard = 0;
    while b.remaining() > 0 && guard < 20_000 && out.len() < (1 << 20) {
        let c = b.chunk();
        let n = c.len();
        if n == 0 {
            break;
        }
        out.extend_from_slice(c);
        b.advance(n);
        guard += 1;
    }
    out
}

/// After `n` bytes went through the tree built from `s`, take `b` apart with the crate's own
/// accessors and compare every inner buffer with what the model says it must still hold.
/// `root_limit`: expected `limit()` of the root if it is a Take whose limit was changed.
pub fn dismantle_check(s: &Spec, b: BX, n: usize, root_limit: Option<usize>, errs: &mut Vec<String>, count: &mut u64) {
    *count += 1;
    match s {
        Spec::Take(l, _, x) => {
            let want = root_limit.unwrap_or(l - n.min(*l));
            let mut b = b;
            let xl = x.model().len();
            for (r1, r2) in b.peek_children() {
                if !matches!(**x, Spec::Endless) && !rd_has_endless(x) && (r1 != xl - n.min(xl) || r2 != r1) {
                    errs.push(format!("Take::get_ref().remaining() = {r1} / get_mut() = {r2}, expected {}", xl - n.min(xl)));
                }
            }
            if b.limit_opt() != Some(want) {
                errs.push(format!("Take limit() = {:?}, expected {} (limit {} minus {} transferred)", b.limit_opt(), want, l, n));
            }
            let mut kids = b.dismantle();
            if kids.len() != 1 {
                errs.push("Take did not yield one inner".into());
                return;
            }
            dismantle_check(x, kids.pop().unwrap(), n, None, errs, count);
        }
        Spec::Chain(_, a, bb) => {
            let la = a.model().len();
            let na = n.min(la);
            let mut b = b;
            let lb = bb.model().len();
            let pk = b.peek_children();
            if pk.len() == 2 && !rd_has_endless(a) && !rd_has_endless(bb) {
                let wa = la - na;
                let wb = lb - (n - na).min(lb);
                if pk[0] != (wa, wa) || pk[1] != (wb, wb) {
                    errs.push(format!("Chain::first_ref/last_ref().remaining() = {:?}, expected ({wa}, {wb})", pk));
                }
            }
            let mut kids = b.dismantle();
            if kids.len() != 2 {
                errs.push("Chain did not yield two inners".into());
                return;
            }
            let kb = kids.pop().unwrap();
            let ka = kids.pop().unwrap();
            dismantle_check(a, ka, na, None, errs, count);
            dismantle_check(bb, kb, n - na, None, errs, count);
        }
        Spec::Endless => {
            if b.remaining() != usize::MAX - n {
                errs.push(format!("endless inner reports remaining {} after {} bytes were transferred", b.remaining(), n));
            }
        }
        leaf => {
            let m = leaf.model();
            let mut b = b;
            let rest = drain_all(&mut *b);
            if n > m.len() || rest != m[n..] {
                errs.push(format!("inner {} holds {:?} after {} bytes were transferred, expected {:?}", leaf.shape(), rest, n, &m[n.min(m.len())..]));
            }
        }
    }
}
