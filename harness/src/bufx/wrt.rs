//! Writer conformance (C11, C12).
use super::getters::{End, Ty, PATHS};
use super::wr::*;
use super::{rd, Spec};
use crate::out::Obs;
use crate::rng::{mix2, Rng};
use crate::util::{catch, Args};
use bytes::{Buf, BufMut};
use std::io::Write;

pub type PutFn = fn(&mut MX, u128, usize);

pub struct PRow {
    pub name: &'static str,
    pub width: usize, // 0 = nbytes
    pub end: End,
    pub ty: Ty,
    pub put: [PutFn; 3],
}

macro_rules! pfixed {
    ($put:ident, $t:ty, $end:expr, $ty:expr, $conv:expr) => {
        PRow {
            name: stringify!($put),
            width: core::mem::size_of::<$t>(),
            end: $end,
            ty: $ty,
            put: [
                |m: &mut MX, v, _n| (**m).$put($conv(v)),
                |m: &mut MX, v, _n| {
                    let mut r: &mut dyn MutX = &mut **m;
                    BufMut::$put(&mut r, $conv(v))
                },
                |m: &mut MX, v, _n| BufMut::$put(m, $conv(v)),
            ],
        }
    };
}
macro_rules! pvar {
    ($put:ident, $t:ty, $end:expr, $ty:expr) => {
        PRow {
            name: stringify!($put),
            width: 0,
            end: $end,
            ty: $ty,
            put: [
                |m: &mut MX, v, n| (**m).$put(v as $t, n),
                |m: &mut MX, v, n| {
                    let mut r: &mut dyn MutX = &mut **m;
                    BufMut::$put(&mut r, v as $t, n)
                },
                |m: &mut MX, v, n| BufMut::$put(m, v as $t, n),
            ],
        }
    };
}

pub fn prows() -> Vec<PRow> {
    use End::*;
    use Ty::*;
    vec![
        pfixed!(put_u8, u8, Be, U, |v: u128| v as u8),
        pfixed!(put_i8, i8, Be, I, |v: u128| v as i8),
        pfixed!(put_u16, u16, Be, U, |v: u128| v as u16),
        pfixed!(put_u16_le, u16, Le, U, |v: u128| v as u16),
        pfixed!(put_u16_ne, u16, Ne, U, |v: u128| v as u16),
        pfixed!(put_i16, i16, Be, I, |v: u128| v as i16),
        pfixed!(put_i16_le, i16, Le, I, |v: u128| v as i16),
        pfixed!(put_i16_ne, i16, Ne, I, |v: u128| v as i16),
        pfixed!(put_u32, u32, Be, U, |v: u128| v as u32),
        pfixed!(put_u32_le, u32, Le, U, |v: u128| v as u32),
        pfixed!(put_u32_ne, u32, Ne, U, |v: u128| v as u32),
        pfixed!(put_i32, i32, Be, I, |v: u128| v as i32),
        pfixed!(put_i32_le, i32, Le, I, |v: u128| v as i32),
        pfixed!(put_i32_ne, i32, Ne, I, |v: u128| v as i32),
        pfixed!(put_u64, u64, Be, U, |v: u128| v as u64),
        pfixed!(put_u64_le, u64, Le, U, |v: u128| v as u64),
        pfixed!(put_u64_ne, u64, Ne, U, |v: u128| v as u64),
        pfixed!(put_i64, i64, Be, I, |v: u128| v as i64),
        pfixed!(put_i64_le, i64, Le, I, |v: u128| v as i64),
        pfixed!(put_i64_ne, i64, Ne, I, |v: u128| v as i64),
        pfixed!(put_u128, u128, Be, U, |v: u128| v),
        pfixed!(put_u128_le, u128, Le, U, |v: u128| v),
        pfixed!(put_u128_ne, u128, Ne, U, |v: u128| v),
        pfixed!(put_i128, i128, Be, I, |v: u128| v as i128),
        pfixed!(put_i128_le, i128, Le, I, |v: u128| v as i128),
        pfixed!(put_i128_ne, i128, Ne, I, |v: u128| v as i128),
        pfixed!(put_f32, f32, Be, F, |v: u128| f32::from_bits(v as u32)),
        pfixed!(put_f32_le, f32, Le, F, |v: u128| f32::from_bits(v as u32)),
        pfixed!(put_f32_ne, f32, Ne, F, |v: u128| f32::from_bits(v as u32)),
        pfixed!(put_f64, f64, Be, F, |v: u128| f64::from_bits(v as u64)),
        pfixed!(put_f64_le, f64, Le, F, |v: u128| f64::from_bits(v as u64)),
        pfixed!(put_f64_ne, f64, Ne, F, |v: u128| f64::from_bits(v as u64)),
        pvar!(put_uint, u64, Be, U),
        pvar!(put_uint_le, u64, Le, U),
        pvar!(put_uint_ne, u64, Ne, U),
        pvar!(put_int, i64, Be, I),
        pvar!(put_int_le, i64, Le, I),
        pvar!(put_int_ne, i64, Ne, I),
    ]
}

/// reference encoding: the low-order `w` bytes of `v` in the given byte order
pub fn encode(v: u128, w: usize, end: End) -> Vec<u8> {
    let big = match end {
        End::Be => true,
        End::Le => false,
        End::Ne => cfg!(target_endian = "big"),
    };
    let le: Vec<u8> = (0..w).map(|i| (v >> (8 * i)) as u8).collect();
    if big {
        le.into_iter().rev().collect()
    } else {
        le
    }
}

/// an honest source that panics at a chosen trait call
struct PanicAfter {
    inner: super::BX,
    calls: std::cell::Cell<usize>,
    at: usize,
}
impl Buf for PanicAfter {
    fn remaining(&self) -> usize {
        self.inner.remaining()
    }
    fn chunk(&self) -> &[u8] {
        if self.at % 2 == 1 {
            let c = self.calls.get();
            self.calls.set(c + 1);
            if c == self.at / 2 {
                panic!("faulty source: chunk() panics");
            }
        }
        self.inner.chunk()
    }
    fn advance(&mut self, n: usize) {
        if self.at % 2 == 0 {
            let c = self.calls.get();
            self.calls.set(c + 1);
            if c == self.at / 2 {
                panic!("faulty source: advance() panics");
            }
        }
        self.inner.advance(n)
    }
}
impl super::BufX for PanicAfter {
    fn dismantle(self: Box<Self>) -> Vec<super::BX> {
        vec![self.inner]
    }
    fn tname(&self) -> &'static str {
        "PanicAfter"
    }
}

#[derive(Clone, Debug)]
pub enum WOp {
    PutSlice(usize),
    PutBytes(u8, usize),
    Typed(usize, u128, usize), // row, value, nbytes
    PutBuf(Spec, bool),        // reader tree, through the default `put` on Box<dyn>
    /// `put` of an honest multi-chunk source that panics in its k-th advance() (even k) / chunk() (odd k) call.
    /// Always the last op of a case: afterwards the target must account for exactly the bytes it really holds.
    PutBufFaulty(Spec, usize, bool),
    SetLimit(usize),
    /// the manual protocol: fill chunk_mut() through the UninitSlice API, then advance_mut
    Manual(usize, u8),
    /// out-of-range use of the UninitSlice returned by chunk_mut(): must panic, nothing written
    UninitOoc(u8),
    Check,
}

fn value_patterns(r: &mut Rng) -> u128 {
    match r.below(7) {
        0 => 0,
        1 => !0u128,
        2 => 1u128 << 127,
        3 => 0x0102_0304_0506_0708_090a_0b0c_0d0e_0f10,
        4 => 0x80,
        5 => 0x7fff_ffff_ffff_ffff_ffff_ffff_ffff_ffff,
        _ => ((r.next() as u128) << 64) | r.next() as u128,
    }
}

fn gen_wspec(r: &mut Rng, depth: usize) -> WSpec {
    if depth == 0 || r.chance(1, 3) {
        return match r.below(6) {
            0 => WSpec::Vec(r.below(4), r.below(3) * 7),
            1 => WSpec::BM(r.below(7), r.below(5), r.below(3) * 9),
            2 | 3 => WSpec::Slice(r.below(40)),
            _ => WSpec::Uninit(r.below(40)),
        };
    }
    if r.chance(1, 2) {
        WSpec::Chain(Box::new(gen_wspec(r, depth - 1)), Box::new(gen_wspec(r, depth - 1)))
    } else {
        let l = *r.pick(&[0usize, 1, 7, 20, 64, usize::MAX]);
        WSpec::Limit(l, r.chance(1, 4), Box::new(gen_wspec(r, depth - 1)))
    }
}

fn viol(o: &mut Obs, spec: &WSpec, sig: &str, case: &str, detail: &str) {
    let shape = spec.shape();
    let top = shape.split('(').next().unwrap_or("?").to_string();
    let d = format!("{detail} || target={shape} spec={spec:?}");
    o.viol("C11", &format!("{sig}:{top}"), case, &d);
    if matches!(spec, WSpec::Chain(..) | WSpec::Limit(..)) {
        o.viol("C12", &format!("{sig}:{top}"), case, &d);
    }
    if sig.starts_with("guard-bytes-modified") {
        // a write outside the memory the target was given is also a C02 observation
        o.viol("C02", &format!("{sig}:{top}"), case, &d);
    }
}

/// checks after every step; returns false when a violation was reported
fn step_laws(o: &mut Obs, spec: &WSpec, root: &mut MX, room: Option<usize>, case: &str, after: &str) -> bool {
    let rm = root.remaining_mut();
    match room {
        Some(r) => {
            if rm != r {
                viol(o, spec, "remaining_mut", case, &format!("after {after}: remaining_mut()={rm}, expected {r}"));
                return false;
            }
        }
        None => {
            if rm < super::HUGE {
                viol(o, spec, "remaining_mut-growable", case, &format!("after {after}: remaining_mut()={rm} on a growable target"));
                return false;
            }
        }
    }
    let cl = root.chunk_mut().len();
    if (cl == 0) != (rm == 0) || cl > rm {
        viol(o, spec, "chunk_mut-len", case, &format!("after {after}: chunk_mut().len()={cl} with remaining_mut()={rm}"));
        return false;
    }
    true
}

/// a growable leaf below the first full fixed leaf keeps growing: the effective room
fn room_after(spec: &WSpec, written: usize, limit_override: Option<(usize, usize)>) -> Option<usize> {
    room_after0(spec, written, limit_override).filter(|&v| v < super::HUGE)
}

fn room_after0(spec: &WSpec, written: usize, limit_override: Option<(usize, usize)>) -> Option<usize> {
    match limit_override {
        Some((l, at)) => {
            if let WSpec::Limit(_, _, x) = spec {
                let inner = x.room().map(|r| r - at.min(r));
                let lim = l - (written - at).min(l);
                Some(match inner {
                    Some(r) => (r - (written - at).min(r)).min(lim),
                    None => lim,
                })
            } else {
                spec.room().map(|r| r - written)
            }
        }
        None => spec.room().map(|r| r - written),
    }
}

pub fn run_case(o: &mut Obs, spec: &WSpec, ops: &[WOp], path: usize, use_writer: Option<usize>, case: &str) -> u64 {
    let mut dg: u64 = 0;
    let rows = prows();
    let mut leaves = Vec::new();
    let mut root = build(spec, &mut leaves);
    let mut written: Vec<u8> = Vec::new();
    let mut typed: Vec<(usize, u128, usize, usize)> = Vec::new(); // (row, value, nbytes, offset)
    let mut lim_over: Option<(usize, usize)> = None;
    o.inc("cases");
    let mut ended_by_panic = false;
    // the model of a source whose put was cut short by the source's own panic
    let mut faulted: Option<Vec<u8>> = None;
    if !step_laws(o, spec, &mut root, room_after(spec, 0, None), case, "construction") {
        return crate::rng::fnv_u64(dg, 9);
    }
    for op in ops {
        o.inc("steps");
        let room = room_after(spec, written.len(), lim_over);
        let (bytes, r): (Vec<u8>, Result<(), String>) = match op {
            WOp::Check => (Vec::new(), Ok(())),
            WOp::SetLimit(l) => {
                if root.set_limit_opt(*l) {
                    lim_over = Some((*l, written.len()));
                }
                (Vec::new(), Ok(()))
            }
            WOp::Manual(k, how) => {
                let d = rd::data(*k, written.len() as u64 + 11);
                let r = catch(|| {
                    let mut left = &d[..];
                    while !left.is_empty() {
                        let c = root.chunk_mut();
                        let n = c.len().min(left.len());
                        if n == 0 {
                            panic!("manual: no room");
                        }
                        match how % 3 {
                            0 => c[..n].copy_from_slice(&left[..n]),
                            1 => {
                                for (i, &b) in left[..n].iter().enumerate() {
                                    c.write_byte(i, b);
                                }
                            }
                            _ => {
                                let sub = &mut c[..n];
                                unsafe {
                                    core::ptr::copy_nonoverlapping(left.as_ptr(), sub.as_mut_ptr(), n);
                                }
                            }
                        }
                        // SAFETY: the first n bytes of the chunk were just initialised
                        unsafe { root.advance_mut(n) };
                        left = &left[n..];
                    }
                });
                (d, r)
            }
            WOp::UninitOoc(how) => {
                let c = root.chunk_mut();
                let n = c.len();
                // in-contract surface first: Debug, immutable indexing, raw views
                let mut tmp = [0u8; 4];
                let from_slice: &mut bytes::buf::UninitSlice = (&mut tmp[..]).into();
                let from_len = from_slice.len();
                let dbg = format!("{:?}", c);
                let half = (&*c)[..n / 2].len();
                let raw = unsafe { c.as_uninit_slice_mut().len() };
                if from_len != 4 || !dbg.contains("UninitSlice") || half != n / 2 || raw != n || (&mut c[n / 2..]).len() != n - n / 2 {
                    viol(o, spec, "uninit-slice-surface", case, "UninitSlice Debug / Index / as_uninit_slice_mut disagree with len()");
                    return crate::rng::fnv_u64(dg, 15);
                }
                let r = match how % 5 {
                    0 => catch(|| c.write_byte(n, 0x99)),
                    1 => catch(|| c.copy_from_slice(&vec![0x99u8; n + 1])),
                    2 => catch(|| {
                        let _ = &mut c[..n + 1];
                    }),
                    3 => catch(|| {
                        let _ = &mut c[n + 1..];
                    }),
                    _ => catch(|| c.write_byte(usize::MAX, 0x99)),
                };
                o.inc("uninit_ooc_calls");
                if r.is_ok() {
                    viol(o, spec, "uninit-slice-ooc-accepted", case, &format!("out-of-range UninitSlice access variant {} on a chunk of {n} bytes did not panic", how % 5));
                    return crate::rng::fnv_u64(dg, 3);
                }
                (Vec::new(), Ok(()))
            }
            WOp::PutSlice(n) => {
                let d = rd::data(*n, written.len() as u64 + 3);
                let r = match path {
                    0 => catch(|| (**(&mut root)).put_slice(&d)),
                    1 => catch(|| {
                        let mut rr: &mut dyn MutX = &mut *root;
                        BufMut::put_slice(&mut rr, &d)
                    }),
                    _ => catch(|| BufMut::put_slice(&mut root, &d)),
                };
                (d, r)
            }
            WOp::PutBytes(v, n) => {
                let r = match path {
                    0 => catch(|| (**(&mut root)).put_bytes(*v, *n)),
                    1 => catch(|| {
                        let mut rr: &mut dyn MutX = &mut *root;
                        BufMut::put_bytes(&mut rr, *v, *n)
                    }),
                    _ => catch(|| BufMut::put_bytes(&mut root, *v, *n)),
                };
                // a request that cannot fit is never appended to the model: no need to materialise it
                (if *n > (1 << 20) { Vec::new() } else { vec![*v; *n] }, r)
            }
            WOp::Typed(ri, v, nb) => {
                let row = &rows[*ri];
                let w = if row.width == 0 { *nb } else { row.width };
                let r = catch(|| (row.put[path])(&mut root, *v, *nb));
                if row.width == 0 && *nb > 8 {
                    if r.is_ok() {
                        viol(o, spec, &format!("{}:nbytes>8-accepted", row.name), case, &format!("{}(.., {nb}) did not panic", row.name));
                        return crate::rng::fnv_u64(dg, 3);
                    }
                    // rejected as it must be; nothing may have been written
                    (Vec::new(), Ok(()))
                } else {
                    typed.push((*ri, *v, *nb, written.len()));
                    (encode(*v, w, row.end), r)
                }
            }
            WOp::PutBufFaulty(rs, at, via_default) => {
                let src: super::BX = Box::new(PanicAfter { inner: super::build(rs), calls: std::cell::Cell::new(0), at: *at });
                let r = if *via_default { catch(|| BufMut::put(&mut root, src)) } else { catch(|| root.put_buf(src)) };
                o.inc("faulty_source_puts");
                if r.is_err() {
                    faulted = Some(rs.model());
                    ended_by_panic = true;
                    break;
                }
                (rs.model(), r)
            }
            WOp::PutBuf(rs, via_default) => {
                let src = super::build(rs);
                let m = rs.model();
                let r = if *via_default { catch(|| BufMut::put(&mut root, src)) } else { catch(|| root.put_buf(src)) };
                (m, r)
            }
        };
        let fits = room.map(|r| bytes.len() <= r).unwrap_or(true) && !matches!(op, WOp::PutBytes(_, n) if *n > (1 << 20));
        let opn = match op {
            WOp::Typed(ri, _, nb) => format!("{}({nb})", rows[*ri].name),
            other => format!("{other:?}").chars().take(60).collect(),
        };
        o.cell(format!("wr|{}|{}|{}|p{path}", spec.shape().split('(').next().unwrap_or(""), opn.split('(').next().unwrap_or(""), if !fits { "nofit" } else if room.map(|r| bytes.len() == r).unwrap_or(false) { "exact" } else { "fits" }));
        dg = crate::rng::fnv_u64(dg, (fits as u64) * 2 + r.is_ok() as u64 + 16);
        match (fits, r) {
            (true, Ok(())) => written.extend_from_slice(&bytes),
            (true, Err(e)) => {
                viol(o, spec, &format!("panic-though-fits:{}", opn.split('(').next().unwrap_or("")), case, &format!("{opn} of {} bytes with room {:?} panicked: {e}", bytes.len(), room));
                return crate::rng::fnv_u64(dg, 3);
            }
            (false, Ok(())) => {
                viol(o, spec, &format!("no-panic-overflow:{}", opn.split('(').next().unwrap_or("")), case, &format!("{opn} of {} bytes with room {:?} did not panic", bytes.len(), room));
                return crate::rng::fnv_u64(dg, 3);
            }
            (false, Err(_)) => {
                o.inc("expected_panics");
                ended_by_panic = true;
                break;
            }
        }
        if !step_laws(o, spec, &mut root, room_after(spec, written.len(), lim_over), case, &opn) {
            return crate::rng::fnv_u64(dg, 3);
        }
    }
    // optional io::Write on top (C12)
    if let (Some(k), false) = (use_writer, ended_by_panic) {
        let room = room_after(spec, written.len(), lim_over);
        let d = rd::data(k, 777);
        let mut w = root.writer();
        let r = w.write(&d);
        let want = room.map(|r| r.min(k)).unwrap_or(k);
        o.inc("writer_ops");
        match r {
            Ok(n) if n == want => written.extend_from_slice(&d[..n]),
            other => {
                let dd = format!("Writer::write({k} bytes) with room {room:?} returned {other:?}, expected Ok({want}) || target={}", spec.shape());
                o.viol("C12", "writer-write", case, &dd);
                return crate::rng::fnv_u64(dg, 3);
            }
        }
        if w.flush().is_err() {
            o.viol("C12", "writer-flush", case, "Writer::flush failed");
            return crate::rng::fnv_u64(dg, 3);
        }
        let rm = w.get_ref().remaining_mut();
        let rm2 = w.get_mut().remaining_mut();
        if let Some(r) = room {
            if rm != r - want || rm2 != rm {
                o.viol("C12", "writer-get_ref", case, &format!("Writer::get_ref().remaining_mut()={rm}, expected {}", r - want));
                return crate::rng::fnv_u64(dg, 3);
            }
        }
        root = w.into_inner();
    }
    // the by-reference accessors must show the same inner state as the adapter reports
    {
        let rm = root.remaining_mut();
        let pk = root.peek();
        o.add("accessor_checks", pk.len() as u64);
        let bad = pk.iter().any(|(a, b)| a != b) || (pk.len() == 2 && pk[0].0.saturating_add(pk[1].0) != rm) || (pk.len() == 1 && pk[0].0 < rm);
        if bad {
            viol(o, spec, "accessors", case, &format!("get_ref/get_mut (first_ref/last_ref) report remaining_mut {pk:?} but the adapter reports {rm}"));
            return crate::rng::fnv_u64(dg, 13);
        }
    }
    let rm_root_before_dismantle = root.remaining_mut();
    // take the tree apart and look at every leaf
    let mut states = Vec::new();
    let mut limits = Vec::new();
    root.collect(&mut states, &mut limits);
    o.add("leaves_collected", states.len() as u64);
    let mut got: Vec<u8> = Vec::new();
    let mut per_leaf: Vec<usize> = Vec::new();
    for (st, info) in states.iter().zip(leaves.iter()) {
        match (st, &info.arena) {
            (LeafState::Grow(c), None) => {
                if c.len() < info.init.len() || c[..info.init.len()] != info.init[..] {
                    viol(o, spec, "initial-contents-changed", case, "bytes before the write cursor changed");
                    return crate::rng::fnv_u64(dg, 3);
                }
                let mine = &c[info.init.len()..];
                per_leaf.push(mine.len());
                got.extend_from_slice(mine);
            }
            (LeafState::Fixed(addr, rem), Some(a)) => {
                if !a.guards_ok() {
                    viol(o, spec, "guard-bytes-modified", case, "bytes outside the writable region of a fixed target were modified");
                    return crate::rng::fnv_u64(dg, 3);
                }
                let k = a.size - rem.min(&a.size);
                if *addr != a.start + k {
                    viol(o, spec, "fixed-cursor", case, &format!("remaining window starts at +{} but {} bytes were consumed", addr.wrapping_sub(a.start), k));
                    return crate::rng::fnv_u64(dg, 3);
                }
                let reg = a.region();
                if !ended_by_panic && reg[k..].iter().any(|&b| b != FILL_BYTE) {
                    viol(o, spec, "wrote-beyond-cursor", case, "bytes beyond the write cursor were modified");
                    return crate::rng::fnv_u64(dg, 3);
                }
                per_leaf.push(k);
                got.extend_from_slice(&reg[..k]);
            }
            _ => {
                viol(o, spec, "leaf-kind", case, "leaf state does not match its spec");
                return crate::rng::fnv_u64(dg, 3);
            }
        }
    }
    let _ = limits;
    // chain(a, b) fills a completely before b: the per-leaf byte counts are determined by the spec
    if !ended_by_panic && lim_over.is_none() {
        let mut want = Vec::new();
        distribute(spec, written.len(), &mut want);
        if want != per_leaf {
            viol(o, spec, "chain-order", case, &format!("bytes per leaf {per_leaf:?}, expected {want:?} (first buffers must be filled first, limits respected)"));
            return crate::rng::fnv_u64(dg, 3);
        }
    }
    let cmp_len = if ended_by_panic { written.len().min(got.len()) } else { got.len().max(written.len()) };
    if got.len() < written.len() || got[..written.len()] != written[..] || (!ended_by_panic && got.len() != written.len()) {
        let k = got.iter().zip(&written).position(|(a, b)| a != b).unwrap_or(got.len().min(written.len()));
        viol(o, spec, "contents", case, &format!("target holds {} appended bytes, expected {} (first difference at {k}, cmp {cmp_len}); ops={:?} path={}", got.len(), written.len(), ops, PATHS[path]));
        return crate::rng::fnv_u64(dg, 9);
    }
    if let Some(src) = &faulted {
        // the put was interrupted by the source: whatever reached the target must be a prefix of the source, in
        // leaf order, and the target's own accounting must agree with the bytes it really holds
        let extra = &got[written.len()..];
        o.inc("faulty_source_checks");
        if extra.len() > src.len() || extra != &src[..extra.len()] {
            viol(o, spec, "faulty-source-contents", case, &format!("after the source panicked the target holds {} new bytes that are not a prefix of the source", extra.len()));
            return crate::rng::fnv_u64(dg, 9);
        }
        if lim_over.is_none() {
            let mut want = Vec::new();
            distribute(spec, got.len(), &mut want);
            if want != per_leaf {
                viol(o, spec, "faulty-source-chain-order", case, &format!("after the source panicked: bytes per leaf {per_leaf:?}, expected {want:?}"));
                return crate::rng::fnv_u64(dg, 9);
            }
        }
        if let Some(r) = room_after(spec, got.len(), lim_over) {
            if rm_root_before_dismantle != r {
                viol(o, spec, "faulty-source-accounting", case, &format!("after the source panicked the target holds {} appended bytes but reports remaining_mut()={rm_root_before_dismantle}, expected {r}; ops={ops:?}", got.len()));
                return crate::rng::fnv_u64(dg, 9);
            }
        }
        return crate::rng::fnv_u64(dg, 5 + got.len() as u64);
    }
    // read back with the matching getters
    let grows = super::getters::rows();
    for (ri, v, nb, off) in typed {
        if off + 16 > written.len() + 16 {
            continue;
        }
        let row = &rows[ri];
        let w = if row.width == 0 { nb } else { row.width };
        if off + w > written.len() {
            continue;
        }
        let gname = row.name.replacen("put_", "get_", 1);
        if let Some(g) = grows.iter().find(|g| g.name == gname) {
            // (a Bytes, not a leaked &'static [u8]: long runs must not fill the ledger's table with leaked blocks)
            let mut b: super::BX = Box::new(bytes::Bytes::copy_from_slice(&written[off..off + w]));
            let back = match catch(|| (g.get[0])(&mut b, nb)) {
                Ok(v) => v,
                Err(e) => {
                    viol(o, spec, &format!("readback-panic:{}", row.name), case, &format!("reading back {}({v:#x}, {nb}) through {gname} panicked: {e}", row.name));
                    return crate::rng::fnv_u64(dg, 3);
                }
            };
            o.inc("readbacks");
            // the value that was put, reduced to what `w` bytes can represent, in canonical form
            let mask = if w >= 16 { !0u128 } else { (1u128 << (8 * w)) - 1 };
            let low = v & mask;
            let want = super::getters::reference(&encode(low, w, End::Be), End::Be, row.ty);
            if back != want {
                viol(o, spec, &format!("readback:{}", row.name), case, &format!("{}({v:#x}) read back through {gname} gives {back:#x}, expected {want:#x}", row.name));
                return crate::rng::fnv_u64(dg, 3);
            }
        }
    }
    for l in leaves {
        if let Some(a) = l.arena {
            a.free();
        }
    }
    crate::rng::fnv_u64(dg, 11 + written.len() as u64)
}

pub fn writers(a: &Args, o: &mut Obs) {
    let seed = a.u64("seed", 1);
    let shard = a.usize("shard", 0);
    let nshards = a.usize("nshards", 1).max(1);
    let count = a.usize("count", 1000);
    let only = a.get("only").map(|v| v.parse::<usize>().unwrap());
    let nrows = prows().len();
    let secs = a.u64("secs", u64::MAX);
    let t0 = std::time::Instant::now();
    for c in 0..count {
        let g = shard + c * nshards;
        if only.map(|x| x != g).unwrap_or(false) {
            continue;
        }
        if c % 256 == 0 && t0.elapsed().as_secs() >= secs {
            o.add("time_capped_shards", 1);
            break;
        }
        let case = format!("wr:{seed}:{g}");
        if c % 64 == 0 || only.is_some() {
            crate::out::journal(&case);
        }
        let mut r = Rng::new(mix2(seed, g as u64));
        let wdepth = r.below(5);
        let spec = gen_wspec(&mut r, wdepth);
        let room = spec.room();
        let nops = 1 + r.below(6);
        let path = r.below(3);
        // a request near usize::MAX must panic; on growable targets reached through the default
        // put_bytes it would instead grow until allocation fails (abort class, not issued)
        let mut huge_ok = room.is_some() || matches!(spec, WSpec::Vec(..)) || (matches!(spec, WSpec::BM(..)) && path == 0);
        let mut ops = Vec::new();
        let mut used = 0usize;
        for _ in 0..nops {
            let left = room.map(|x| x.saturating_sub(used));
            // sizes chosen so that writes fit, fill exactly, straddle leaf ends, or do not fit
            let sz = match (left, r.below(6)) {
                (Some(l), 0) => l,
                (Some(l), 1) => l + 1 + r.below(3),
                (Some(l), 2) => l / 2,
                (_, 3) => 0,
                _ => r.below(30),
            };
            let op = match r.below(10) {
                0 | 1 => WOp::PutSlice(sz),
                2 => {
                    if huge_ok && r.chance(1, 6) {
                        WOp::PutBytes(r.byte(), usize::MAX - r.below(40))
                    } else {
                        WOp::PutBytes(r.byte(), sz)
                    }
                }
                3..=6 => {
                    // cycle through every put method
                    let ri = (g + ops.len() * 7 + r.below(3)) % nrows;
                    let nb = if r.chance(1, 12) { 9 } else { r.below(9) };
                    WOp::Typed(ri, value_patterns(&mut r), nb)
                }
                7 => {
                    let mut salt = g as u64;
                    WOp::PutBuf(rd::gen_tree(&mut r, 2, sz.min(40), &mut salt), r.chance(1, 2))
                }
                8 if matches!(spec, WSpec::Limit(..)) => {
                    let l = *r.pick(&[0usize, 3, 40, usize::MAX]);
                    if l > 40 {
                        huge_ok = false; // the limit no longer bounds a growable inner target
                    }
                    WOp::SetLimit(l)
                }
                9 if r.chance(1, 2) => WOp::Manual(sz, r.byte()),
                9 => WOp::UninitOoc(r.byte()),
                _ => WOp::Check,
            };
            used += match &op {
                WOp::PutSlice(n) | WOp::PutBytes(_, n) => {
                    if *n > (1 << 20) {
                        0
                    } else {
                        *n
                    }
                }
                WOp::Typed(ri, _, nb) => {
                    let w = prows()[*ri].width;
                    if w == 0 {
                        *nb
                    } else {
                        w
                    }
                }
                WOp::PutBuf(s, _) => s.model().len(),
                WOp::PutBufFaulty(s, _, _) => s.model().len(),
                WOp::Manual(k, _) => *k,
                _ => 0,
            };
            ops.push(op);
        }
        let mut use_writer = if r.chance(1, 4) { Some(r.below(50)) } else { None };
        if r.chance(1, 5) {
            // last op: an honest multi-chunk source that panics part-way through the put
            let left = room.map(|x| x.saturating_sub(used)).unwrap_or(40);
            let sz = if left == 0 { 0 } else { 1 + r.below(left.min(40)) };
            let mut salt = g as u64 ^ 0x5eed;
            let tree = rd::gen_tree(&mut r, 2, sz, &mut salt);
            ops.push(WOp::PutBufFaulty(tree, r.below(8), r.chance(1, 2)));
            use_writer = None;
        }
        if a.flag("show") {
            println!("SHOW {case}: target={} spec={:?} room={:?} ops={:?} path={}", spec.shape(), spec, room, ops, PATHS[path]);
        }
        if c % 89 == 0 {
            o.sample(format!("{case}: target={} room={:?} ops={:?} path={} writer={:?}", spec.shape(), room, ops, PATHS[path], use_writer));
        }
        let h = run_case(o, &spec, &ops, path, use_writer, &case);
        if a.flag("digest") {
            println!("DIGEST wr {g} {h:016x}");
        }
    }
    o.add("put_methods", nrows as u64 + 3);
}

/// Putter table (C11; the counterpart of the getter table): every put_X row x nbytes 0..=9 x value pattern x a fixed
/// set of targets whose leaf boundary falls before / inside / after the value x call path. `run_case` checks the
/// contents against the reference encoding, the cursor, the guards, the nbytes > 8 rejection and the read-back.
/// Small enough to be interpreted completely for big-endian and 32-bit targets under Miri.
pub fn putters(a: &Args, o: &mut Obs) {
    let shard = a.usize("shard", 0);
    let nshards = a.usize("nshards", 1).max(1);
    let rows = prows();
    let values: [u128; 6] = [0, !0u128, 1u128 << 127, 0x0102_0304_0506_0708_090a_0b0c_0d0e_0f10, 0x80, 0x7fff_ffff_ffff_ffff_ffff_ffff_ffff_ff7f];
    let mut idx = 0usize;
    let only_ne = a.flag("only-ne");
    for (ri, row) in rows.iter().enumerate() {
        if only_ne && row.end != End::Ne {
            continue;
        }
        let nbs: Vec<usize> = if row.width == 0 { (0..=9).collect() } else { vec![0] };
        for &nb in &nbs {
            let w = if row.width == 0 { nb.min(8) } else { row.width };
            for (vi, &v) in values.iter().enumerate() {
                idx += 1;
                if idx % nshards != shard {
                    continue;
                }
                let case = format!("tbl:put:{}:{nb}:{vi}", row.name);
                crate::out::journal(&case);
                let targets: Vec<WSpec> = vec![
                    WSpec::Vec(1, 0),
                    WSpec::BM((ri + vi) % 7, 2, 0),
                    WSpec::Slice(w + 3),
                    WSpec::Uninit(w + 1),
                    // a leaf boundary inside the value (and exactly in front of / behind it)
                    WSpec::Chain(Box::new(WSpec::Slice(1 + w / 2)), Box::new(WSpec::Uninit(w + 2))),
                    WSpec::Chain(Box::new(WSpec::Slice(1)), Box::new(WSpec::Slice(w + 1))),
                    WSpec::Chain(Box::new(WSpec::Uninit(1 + w)), Box::new(WSpec::Vec(0, 0))),
                    WSpec::Limit(w + 2, vi % 2 == 0, Box::new(WSpec::Vec(0, 3))),
                    // does not fit by one byte: must panic
                    WSpec::Slice(w),
                ];
                for (ti, spec) in targets.iter().enumerate() {
                    let path = (ti + vi + nb) % 3;
                    // one byte first, so that the value does not start at the beginning of the target
                    let ops = [WOp::PutSlice(1), WOp::Typed(ri, v, nb), WOp::Check];
                    run_case(o, spec, &ops, path, None, &case);
                    o.inc("putter_rows");
                    o.cell(format!("put|{}|w{w}|t{ti}|{}", row.name, PATHS[path]));
                }
            }
        }
    }
    o.add("put_methods", rows.len() as u64);
    o.sample("row put_int_ne nbytes=3 value 0x80: targets Vec, BytesMut (7 kinds), &mut [u8], &mut [MaybeUninit<u8>], Chain with the leaf boundary inside / before / behind the value, Limit(Vec), and a slice one byte too short (must panic); through dyn, &mut T, Box<T>; contents vs reference encoding, read back with get_int_ne".to_string());
}

/// how `n` appended bytes must be distributed over the leaves, in order
pub fn distribute(spec: &WSpec, n: usize, out: &mut Vec<usize>) -> usize {
    match spec {
        WSpec::Vec(..) | WSpec::BM(..) => {
            out.push(n);
            n
        }
        WSpec::Slice(k) | WSpec::Uninit(k) => {
            out.push(n.min(*k));
            n.min(*k)
        }
        WSpec::Chain(a, b) => {
            let ca = distribute(a, n, out);
            ca + distribute(b, n - ca, out)
        }
        WSpec::Limit(l, _, x) => distribute(x, n.min(*l), out),
    }
}

/// used by other modes
pub fn _unused(_b: &mut dyn Buf) {}
