//! The getter table: every `get_X` / `try_get_X` once, with reference decoders.
use super::{BufX, BX};
use bytes::{Buf, TryGetError};

/// canonical 128-bit image of a decoded value (signed values sign-extended, floats by bit pattern)
pub trait Canon {
    fn canon(self) -> u128;
}
macro_rules! canon_u {
    ($($t:ty),*) => {$(impl Canon for $t { fn canon(self) -> u128 { self as u128 } })*};
}
macro_rules! canon_i {
    ($($t:ty),*) => {$(impl Canon for $t { fn canon(self) -> u128 { self as i128 as u128 } })*};
}
canon_u!(u8, u16, u32, u64, u128);
canon_i!(i8, i16, i32, i64, i128);
impl Canon for f32 {
    fn canon(self) -> u128 {
        self.to_bits() as u128
    }
}
impl Canon for f64 {
    fn canon(self) -> u128 {
        self.to_bits() as u128
    }
}

#[derive(Clone, Copy, PartialEq, Eq, Debug)]
pub enum End {
    Be,
    Le,
    Ne,
}

#[derive(Clone, Copy, PartialEq, Eq, Debug)]
pub enum Ty {
    U,
    I,
    F,
}

pub type GetFn = fn(&mut BX, usize) -> u128;
pub type TryFn = fn(&mut BX, usize) -> Result<u128, TryGetError>;

pub struct Row {
    pub name: &'static str,
    pub try_name: &'static str,
    /// width in bytes; 0 = takes nbytes
    pub width: usize,
    pub end: End,
    pub ty: Ty,
    /// [direct dyn call, through `&mut T`, through `Box<T>`]
    pub get: [GetFn; 3],
    pub try_get: [TryFn; 3],
}

pub const PATHS: [&str; 3] = ["dyn", "&mut", "Box"];

macro_rules! fixed {
    ($get:ident, $try:ident, $t:ty, $end:expr, $ty:expr) => {
        Row {
            name: stringify!($get),
            try_name: stringify!($try),
            width: core::mem::size_of::<$t>(),
            end: $end,
            ty: $ty,
            get: [
                |b: &mut BX, _n| (**b).$get().canon(),
                |b: &mut BX, _n| {
                    let mut r: &mut dyn BufX = &mut **b;
                    Buf::$get(&mut r).canon()
                },
                |b: &mut BX, _n| Buf::$get(b).canon(),
            ],
            try_get: [
                |b: &mut BX, _n| (**b).$try().map(|v| v.canon()),
                |b: &mut BX, _n| {
                    let mut r: &mut dyn BufX = &mut **b;
                    Buf::$try(&mut r).map(|v| v.canon())
                },
                |b: &mut BX, _n| Buf::$try(b).map(|v| v.canon()),
            ],
        }
    };
}
macro_rules! var {
    ($get:ident, $try:ident, $end:expr, $ty:expr) => {
        Row {
            name: stringify!($get),
            try_name: stringify!($try),
            width: 0,
            end: $end,
            ty: $ty,
            get: [
                |b: &mut BX, n| (**b).$get(n).canon(),
                |b: &mut BX, n| {
                    let mut r: &mut dyn BufX = &mut **b;
                    Buf::$get(&mut r, n).canon()
                },
                |b: &mut BX, n| Buf::$get(b, n).canon(),
            ],
            try_get: [
                |b: &mut BX, n| (**b).$try(n).map(|v| v.canon()),
                |b: &mut BX, n| {
                    let mut r: &mut dyn BufX = &mut **b;
                    Buf::$try(&mut r, n).map(|v| v.canon())
                },
                |b: &mut BX, n| Buf::$try(b, n).map(|v| v.canon()),
            ],
        }
    };
}

pub fn rows() -> Vec<Row> {
    use End::*;
    use Ty::*;
    vec![
        fixed!(get_u8, try_get_u8, u8, Be, U),
        fixed!(get_i8, try_get_i8, i8, Be, I),
        fixed!(get_u16, try_get_u16, u16, Be, U),
        fixed!(get_u16_le, try_get_u16_le, u16, Le, U),
        fixed!(get_u16_ne, try_get_u16_ne, u16, Ne, U),
        fixed!(get_i16, try_get_i16, i16, Be, I),
        fixed!(get_i16_le, try_get_i16_le, i16, Le, I),
        fixed!(get_i16_ne, try_get_i16_ne, i16, Ne, I),
        fixed!(get_u32, try_get_u32, u32, Be, U),
        fixed!(get_u32_le, try_get_u32_le, u32, Le, U),
        fixed!(get_u32_ne, try_get_u32_ne, u32, Ne, U),
        fixed!(get_i32, try_get_i32, i32, Be, I),
        fixed!(get_i32_le, try_get_i32_le, i32, Le, I),
        fixed!(get_i32_ne, try_get_i32_ne, i32, Ne, I),
        fixed!(get_u64, try_get_u64, u64, Be, U),
        fixed!(get_u64_le, try_get_u64_le, u64, Le, U),
        fixed!(get_u64_ne, try_get_u64_ne, u64, Ne, U),
        fixed!(get_i64, try_get_i64, i64, Be, I),
        fixed!(get_i64_le, try_get_i64_le, i64, Le, I),
        fixed!(get_i64_ne, try_get_i64_ne, i64, Ne, I),
        fixed!(get_u128, try_get_u128, u128, Be, U),
        fixed!(get_u128_le, try_get_u128_le, u128, Le, U),
        fixed!(get_u128_ne, try_get_u128_ne, u128, Ne, U),
        fixed!(get_i128, try_get_i128, i128, Be, I),
        fixed!(get_i128_le, try_get_i128_le, i128, Le, I),
        fixed!(get_i128_ne, try_get_i128_ne, i128, Ne, I),
        fixed!(get_f32, try_get_f32, f32, Be, F),
        fixed!(get_f32_le, try_get_f32_le, f32, Le, F),
        fixed!(get_f32_ne, try_get_f32_ne, f32, Ne, F),
        fixed!(get_f64, try_get_f64, f64, Be, F),
        fixed!(get_f64_le, try_get_f64_le, f64, Le, F),
        fixed!(get_f64_ne, try_get_f64_ne, f64, Ne, F),
        var!(get_uint, try_get_uint, Be, U),
        var!(get_uint_le, try_get_uint_le, Le, U),
        var!(get_uint_ne, try_get_uint_ne, Ne, U),
        var!(get_int, try_get_int, Be, I),
        var!(get_int_le, try_get_int_le, Le, I),
        var!(get_int_ne, try_get_int_ne, Ne, I),
    ]
}

/// Reference decode of `w` bytes (1..=16; 0 gives 0): the value of the bytes read in the given
/// byte order, two's-complement sign extension for signed types, as a canonical u128.
pub fn reference(bytes: &[u8], end: End, ty: Ty) -> u128 {
    let w = bytes.len();
    if w == 0 {
        return 0;
    }
    let big = match end {
        End::Be => true,
        End::Le => false,
        End::Ne => cfg!(target_endian = "big"),
    };
    let mut v: u128 = 0;
    if big {
        for &b in bytes {
            v = (v << 8) | b as u128;
        }
    } else {
        for &b in bytes.iter().rev() {
            v = (v << 8) | b as u128;
        }
    }
    if ty == Ty::I && w < 16 {
        let sign = 1u128 << (8 * w - 1);
        if v & sign != 0 {
            v |= !0u128 << (8 * w);
        }
    }
    v
}

/// value patterns of `w` bytes
pub fn patterns(w: usize, salt: u64) -> Vec<Vec<u8>> {
    let mut p = vec![vec![0u8; w], vec![0xff; w]];
    if w > 0 {
        let mut a = vec![0u8; w];
        a[0] = 0x80;
        p.push(a);
        let mut a = vec![0xffu8; w];
        a[0] = 0x7f;
        p.push(a);
        let mut a = vec![0u8; w];
        a[w - 1] = 0x80;
        p.push(a);
        p.push((1..=w as u8).collect());
        let mut x = salt | 1;
        for _ in 0..2 {
            p.push((0..w).map(|_| (crate::rng::splitmix(&mut x) >> 11) as u8).collect());
        }
    }
    p
}
