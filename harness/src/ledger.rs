//! Monitoring global allocator ("ledger").
//!
//! Wraps `System`. Never allocates, never panics, never unwinds.
//!
//! * every align-1 ("byte buffer") allocation is tracked, gets 32-byte red zones on both
//!   sides, an even / odd / mixed user address, fresh fill 0xCD, poison 0xDE + FIFO
//!   quarantine on free, and `realloc` always moves;
//! * every other allocation made inside a *scope* (a call into `bytes`, marked by the
//!   harness) is tracked too (layout-exact free, poison, quarantine, leak balance);
//! * violations are written to a static ring that the harness polls.

use std::alloc::{GlobalAlloc, Layout, System};
use std::cell::{Cell, UnsafeCell};
use std::sync::atomic::{AtomicBool, AtomicU32, AtomicU64, AtomicU8, AtomicUsize, Ordering::Relaxed, Ordering::Acquire, Ordering::Release};

pub const RZ: usize = 32;
const RZ_BYTE: u8 = 0xFA;
pub const FRESH_BYTE: u8 = 0xCD;
pub const POISON_BYTE: u8 = 0xDE;
const BIG: usize = 1 << 20;
const MAX_REQ: usize = 1 << 40;
const NNODES: usize = 1 << 20;
const NBUCKETS: usize = 1 << 18;
const QCAP: usize = 1 << 15;
const QBYTES: usize = 48 << 20;

#[derive(Clone, Copy, PartialEq, Eq, Debug)]
pub enum Parity {
    Even = 0,
    Odd = 1,
    Mixed = 2,
    /// no red zones: byte buffers are carved back to back from an arena (slab-like placement)
    Packed = 3,
}

static PARITY: AtomicU8 = AtomicU8::new(0);
/// full = poison + quarantine + fresh fill; otherwise counting only (red zones stay on)
static FULL: AtomicBool = AtomicBool::new(true);
static SEQ: AtomicU64 = AtomicU64::new(1);
static MIX: AtomicU64 = AtomicU64::new(0x9E3779B97F4A7C15);

pub fn set_parity(p: Parity) {
    PARITY.store(p as u8, Relaxed);
}
pub fn is_packed() -> bool {
    PARITY.load(Relaxed) == 3
}
pub fn set_mix_seed(s: u64) {
    MIX.store(s | 1, Relaxed);
}
pub fn set_full(on: bool) {
    FULL.store(on, Relaxed);
}

#[derive(Clone, Copy)]
#[repr(C)]
struct Node {
    user: usize,
    base: usize,
    size: usize,
    align: usize,
    seq: u64,
    tag: u32,
    state: u8, // 0 free, 1 live, 2 quarantined
    isbyte: u8,
    hnext: u32,
    lprev: u32,
    lnext: u32,
}

const ZERO_NODE: Node = Node { user: 0, base: 0, size: 0, align: 0, seq: 0, tag: 0, state: 0, isbyte: 0, hnext: 0, lprev: 0, lnext: 0 };

struct Tab {
    nodes: [Node; NNODES],
    buckets: [u32; NBUCKETS],
    free_head: u32,
    fresh: u32,
    live_head: u32,
    q: [u32; QCAP],
    q_head: usize,
    q_len: usize,
    q_bytes: usize,
}

struct TabCell(UnsafeCell<Tab>);
unsafe impl Sync for TabCell {}

static TAB: TabCell = TabCell(UnsafeCell::new(Tab {
    nodes: [ZERO_NODE; NNODES],
    buckets: [0; NBUCKETS],
    free_head: 0,
    fresh: 0,
    live_head: 0,
    q: [0; QCAP],
    q_head: 0,
    q_len: 0,
    q_bytes: 0,
}));

static LOCK: AtomicBool = AtomicBool::new(false);

const ARENA_SIZE: usize = 256 << 20;
const PACK_MAX: usize = 8192;
static ARENA_BASE: AtomicUsize = AtomicUsize::new(0);
static ARENA_USED: AtomicUsize = AtomicUsize::new(0);

/// bump-allocate `size` bytes from the packed arena (never reused); 0 when exhausted
unsafe fn arena_alloc(size: usize) -> usize {
    let mut base = ARENA_BASE.load(Relaxed);
    if base == 0 {
        let p = System.alloc(Layout::from_size_align_unchecked(ARENA_SIZE, 4096)) as usize;
        if p == 0 {
            return 0;
        }
        match ARENA_BASE.compare_exchange(0, p, Relaxed, Relaxed) {
            Ok(_) => base = p,
            Err(cur) => {
                System.dealloc(p as *mut u8, Layout::from_size_align_unchecked(ARENA_SIZE, 4096));
                base = cur;
            }
        }
    }
    let off = ARENA_USED.fetch_add(size, Relaxed);
    if off + size > ARENA_SIZE {
        return 0;
    }
    base + off
}

struct Guard;
fn lock() -> Guard {
    let mut spins = 0u32;
    while LOCK.compare_exchange_weak(false, true, Acquire, Relaxed).is_err() {
        spins += 1;
        if spins > 64 {
            std::thread::yield_now();
        } else {
            std::hint::spin_loop();
        }
    }
    Guard
}
impl Drop for Guard {
    fn drop(&mut self) {
        LOCK.store(false, Release);
    }
}

#[allow(clippy::mut_from_ref)]
unsafe fn tab() -> &'static mut Tab {
    &mut *TAB.0.get()
}

// ---------------------------------------------------------------- violations

#[derive(Clone, Copy, Debug, PartialEq, Eq)]
pub enum VKind {
    LayoutMismatch = 1,
    DoubleFree = 2,
    FreeUnknown = 3,
    FreeInterior = 4,
    Overflow = 5,
    Underflow = 6,
    WriteAfterFree = 7,
    TableFull = 8,
}

#[derive(Clone, Copy, Debug)]
pub struct Violation {
    pub kind: VKind,
    pub ptr: usize,
    pub a: usize,
    pub b: usize,
    pub seq: u64,
}

const VCAP: usize = 64;
struct VRing {
    v: [Violation; VCAP],
    n: usize,
}
struct VCell(UnsafeCell<VRing>);
unsafe impl Sync for VCell {}
static VR: VCell = VCell(UnsafeCell::new(VRing { v: [Violation { kind: VKind::TableFull, ptr: 0, a: 0, b: 0, seq: 0 }; VCAP], n: 0 }));
static VCOUNT: AtomicUsize = AtomicUsize::new(0);

// must be called with LOCK held
unsafe fn report(kind: VKind, ptr: usize, a: usize, b: usize, seq: u64) {
    let r = &mut *VR.0.get();
    if r.n < VCAP {
        r.v[r.n] = Violation { kind, ptr, a, b, seq };
        r.n += 1;
    }
    VCOUNT.fetch_add(1, Relaxed);
}

pub fn violation_count() -> usize {
    VCOUNT.load(Relaxed)
}

/// Drains recorded violations.
pub fn take_violations() -> Vec<Violation> {
    let mut tmp = [Violation { kind: VKind::TableFull, ptr: 0, a: 0, b: 0, seq: 0 }; VCAP];
    let n;
    {
        let _g = lock();
        unsafe {
            let r = &mut *VR.0.get();
            n = r.n;
            tmp[..n].copy_from_slice(&r.v[..n]);
            r.n = 0;
        }
        VCOUNT.store(0, Relaxed);
    }
    tmp[..n].to_vec()
}

// ---------------------------------------------------------------- scopes and events

#[derive(Clone, Copy, Default, Debug, PartialEq, Eq)]
pub struct Events {
    pub byte_allocs: u32,
    pub byte_alloc_bytes: usize,
    pub byte_frees: u32,
    pub other_allocs: u32,
    pub other_frees: u32,
    pub max_byte_alloc: usize,
}

thread_local! {
    static DEPTH: Cell<u32> = const { Cell::new(0) };
    static TAG: Cell<u32> = const { Cell::new(0) };
    static EV: Cell<Events> = const { Cell::new(Events { byte_allocs: 0, byte_alloc_bytes: 0, byte_frees: 0, other_allocs: 0, other_frees: 0, max_byte_alloc: 0 }) };
}

/// Enter a tracking scope (nestable). Allocations made inside are tagged with `tag`.
pub fn scope_enter(tag: u32) {
    DEPTH.with(|d| {
        if d.get() == 0 {
            TAG.with(|t| t.set(tag));
            EV.with(|e| e.set(Events::default()));
        }
        d.set(d.get() + 1)
    });
}
/// Leave the scope; returns the allocation events seen since the outermost enter.
pub fn scope_exit() -> Events {
    DEPTH.with(|d| d.set(d.get().saturating_sub(1)));
    EV.with(|e| e.get())
}
pub fn in_scope() -> bool {
    DEPTH.try_with(|d| d.get() > 0).unwrap_or(false)
}
/// RAII scope
pub struct Scope;
impl Scope {
    pub fn new(tag: u32) -> Scope {
        scope_enter(tag);
        Scope
    }
}
impl Drop for Scope {
    fn drop(&mut self) {
        scope_exit();
    }
}
pub fn events() -> Events {
    EV.with(|e| e.get())
}
pub fn reset_events() {
    EV.with(|e| e.set(Events::default()));
}

fn cur_scope() -> (bool, u32) {
    let d = DEPTH.try_with(|d| d.get()).unwrap_or(0);
    if d == 0 || paused() {
        (false, 0)
    } else {
        (true, TAG.try_with(|t| t.get()).unwrap_or(0))
    }
}
fn ev_update(f: impl FnOnce(&mut Events)) {
    let _ = EV.try_with(|e| {
        let mut v = e.get();
        f(&mut v);
        e.set(v);
    });
}

// ---------------------------------------------------------------- global counters (tagged blocks only)

pub static T_LIVE_BYTES: AtomicUsize = AtomicUsize::new(0);
pub static T_PEAK_BYTES: AtomicUsize = AtomicUsize::new(0);
pub static T_BYTE_ALLOCS: AtomicU64 = AtomicU64::new(0);
pub static T_BYTE_FREES: AtomicU64 = AtomicU64::new(0);
pub static T_OTHER_ALLOCS: AtomicU64 = AtomicU64::new(0);
pub static ALL_ALLOCS: AtomicU64 = AtomicU64::new(0);
pub static ALL_FREES: AtomicU64 = AtomicU64::new(0);
pub static REALLOCS: AtomicU64 = AtomicU64::new(0);
pub static RZ_CHECKS: AtomicU64 = AtomicU64::new(0);
pub static POISON_CHECKS: AtomicU64 = AtomicU64::new(0);
pub static ODD_BUFS: AtomicU64 = AtomicU64::new(0);
pub static EVEN_BUFS: AtomicU64 = AtomicU64::new(0);
static DUMMY: AtomicU32 = AtomicU32::new(0);

pub fn reset_peak() {
    T_PEAK_BYTES.store(T_LIVE_BYTES.load(Relaxed), Relaxed);
}

// ---------------------------------------------------------------- table helpers (LOCK held)

fn hash(p: usize) -> usize {
    let x = (p as u64).wrapping_mul(0x9E3779B97F4A7C15);
    (x >> 40) as usize & (NBUCKETS - 1)
}

unsafe fn node_alloc(t: &mut Tab) -> u32 {
    if t.free_head != 0 {
        let i = t.free_head;
        t.free_head = t.nodes[i as usize].hnext;
        i
    } else if (t.fresh as usize) < NNODES - 1 {
        // index 0 is the null index; keeping `fresh` zero-initialised keeps TAB in .bss
        t.fresh += 1;
        t.fresh
    } else {
        0
    }
}
unsafe fn node_free(t: &mut Tab, i: u32) {
    t.nodes[i as usize] = ZERO_NODE;
    t.nodes[i as usize].hnext = t.free_head;
    t.free_head = i;
}
unsafe fn hash_insert(t: &mut Tab, i: u32) {
    let b = hash(t.nodes[i as usize].user);
    t.nodes[i as usize].hnext = t.buckets[b];
    t.buckets[b] = i;
}
unsafe fn hash_find(t: &Tab, user: usize) -> u32 {
    let mut i = t.buckets[hash(user)];
    while i != 0 {
        if t.nodes[i as usize].user == user {
            return i;
        }
        i = t.nodes[i as usize].hnext;
    }
    0
}
unsafe fn hash_remove(t: &mut Tab, i: u32) {
    let b = hash(t.nodes[i as usize].user);
    let mut cur = t.buckets[b];
    if cur == i {
        t.buckets[b] = t.nodes[i as usize].hnext;
        return;
    }
    while cur != 0 {
        let nx = t.nodes[cur as usize].hnext;
        if nx == i {
            t.nodes[cur as usize].hnext = t.nodes[i as usize].hnext;
            return;
        }
        cur = nx;
    }
}
unsafe fn live_insert(t: &mut Tab, i: u32) {
    let h = t.live_head;
    t.nodes[i as usize].lprev = 0;
    t.nodes[i as usize].lnext = h;
    if h != 0 {
        t.nodes[h as usize].lprev = i;
    }
    t.live_head = i;
}
unsafe fn live_remove(t: &mut Tab, i: u32) {
    let (p, n) = (t.nodes[i as usize].lprev, t.nodes[i as usize].lnext);
    if p != 0 {
        t.nodes[p as usize].lnext = n;
    } else {
        t.live_head = n;
    }
    if n != 0 {
        t.nodes[n as usize].lprev = p;
    }
    t.nodes[i as usize].lprev = 0;
    t.nodes[i as usize].lnext = 0;
}

fn real_layout(size: usize) -> Layout {
    // +2: one byte for the odd shift, one spare so the upper red zone is never empty
    unsafe { Layout::from_size_align_unchecked(size + 2 * RZ + 2, 2) }
}

unsafe fn check_redzones(n: &Node) -> Option<(VKind, usize)> {
    if n.isbyte == 2 {
        return None;
    }
    RZ_CHECKS.fetch_add(1, Relaxed);
    let lo = n.base as *const u8;
    let lo_len = n.user - n.base;
    for k in 0..lo_len {
        if *lo.add(k) != RZ_BYTE {
            return Some((VKind::Underflow, lo_len - k));
        }
    }
    let hi = (n.user + n.size) as *const u8;
    let hi_len = n.base + real_layout(n.size).size() - (n.user + n.size);
    for k in 0..hi_len {
        if *hi.add(k) != RZ_BYTE {
            return Some((VKind::Overflow, k));
        }
    }
    None
}

unsafe fn check_poison(n: &Node) -> Option<usize> {
    POISON_CHECKS.fetch_add(1, Relaxed);
    let p = n.user as *const u8;
    for k in 0..n.size {
        if *p.add(k) != POISON_BYTE {
            return Some(k);
        }
    }
    None
}

unsafe fn sys_release(n: &Node) {
    if n.isbyte == 2 {
        // arena memory is never handed out again
    } else if n.isbyte != 0 {
        System.dealloc(n.base as *mut u8, real_layout(n.size));
    } else {
        System.dealloc(n.base as *mut u8, Layout::from_size_align_unchecked(n.size, n.align));
    }
}

unsafe fn evict_one(t: &mut Tab) {
    let i = t.q[t.q_head];
    t.q_head = (t.q_head + 1) % QCAP;
    t.q_len -= 1;
    let n = t.nodes[i as usize];
    t.q_bytes -= n.size;
    if let Some(off) = check_poison(&n) {
        report(VKind::WriteAfterFree, n.user, off, n.size, n.seq);
    }
    if n.isbyte != 0 {
        if let Some((k, off)) = check_redzones(&n) {
            report(k, n.user, off, n.size, n.seq);
        }
    }
    hash_remove(t, i);
    sys_release(&n);
    node_free(t, i);
}

// ---------------------------------------------------------------- the allocator

pub struct Ledger;

unsafe impl GlobalAlloc for Ledger {
    unsafe fn alloc(&self, layout: Layout) -> *mut u8 {
        do_alloc(layout, false)
    }
    unsafe fn alloc_zeroed(&self, layout: Layout) -> *mut u8 {
        do_alloc(layout, true)
    }
    unsafe fn dealloc(&self, ptr: *mut u8, layout: Layout) {
        do_dealloc(ptr, layout)
    }
    unsafe fn realloc(&self, ptr: *mut u8, layout: Layout, new_size: usize) -> *mut u8 {
        let isbyte = layout.align() == 1 && layout.size() > 0;
        let tracked = isbyte || {
            let _g = lock();
            hash_find(tab(), ptr as usize) != 0
        };
        if !tracked {
            return System.realloc(ptr, layout, new_size);
        }
        REALLOCS.fetch_add(1, Relaxed);
        let nl = Layout::from_size_align_unchecked(new_size, layout.align());
        let np = do_alloc(nl, false);
        if np.is_null() {
            return np;
        }
        std::ptr::copy_nonoverlapping(ptr, np, layout.size().min(new_size));
        do_dealloc(ptr, layout);
        np
    }
}

unsafe fn do_alloc(layout: Layout, zero: bool) -> *mut u8 {
    let size = layout.size();
    if size > MAX_REQ {
        return std::ptr::null_mut();
    }
    let isbyte = layout.align() == 1 && size > 0;
    let (scoped, tag) = cur_scope();
    if !isbyte && !scoped {
        return if zero { System.alloc_zeroed(layout) } else { System.alloc(layout) };
    }
    ALL_ALLOCS.fetch_add(1, Relaxed);
    let seq = SEQ.fetch_add(1, Relaxed);
    let full = FULL.load(Relaxed);
    let packed = isbyte && PARITY.load(Relaxed) == 3 && size <= PACK_MAX;
    let pk = if packed { arena_alloc(size) } else { 0 };
    let (base, user) = if pk != 0 {
        if zero {
            std::ptr::write_bytes(pk as *mut u8, 0, size);
        } else if full {
            std::ptr::write_bytes(pk as *mut u8, FRESH_BYTE, size);
        }
        (pk as *mut u8, pk as *mut u8)
    } else if isbyte {
        let rl = real_layout(size);
        let base = System.alloc(rl);
        if base.is_null() {
            return base;
        }
        let odd = match PARITY.load(Relaxed) {
            0 => false,
            1 => true,
            _ => {
                let m = MIX.load(Relaxed);
                (seq.wrapping_mul(m) >> 33) & 1 == 1
            }
        };
        if odd {
            ODD_BUFS.fetch_add(1, Relaxed);
        } else {
            EVEN_BUFS.fetch_add(1, Relaxed);
        }
        let user = base.add(RZ + odd as usize);
        std::ptr::write_bytes(base, RZ_BYTE, RZ + odd as usize);
        let hi = user.add(size);
        let hi_len = rl.size() - (RZ + odd as usize) - size;
        std::ptr::write_bytes(hi, RZ_BYTE, hi_len);
        if zero {
            std::ptr::write_bytes(user, 0, size);
        } else if full && size <= BIG {
            std::ptr::write_bytes(user, FRESH_BYTE, size);
        }
        (base, user)
    } else {
        let p = if zero { System.alloc_zeroed(layout) } else { System.alloc(layout) };
        if p.is_null() {
            return p;
        }
        if !zero && full && size <= BIG {
            std::ptr::write_bytes(p, FRESH_BYTE, size);
        }
        (p, p)
    };
    {
        let _g = lock();
        let t = tab();
        let i = node_alloc(t);
        if i == 0 {
            report(VKind::TableFull, user as usize, 0, 0, seq);
        } else {
            t.nodes[i as usize] = Node {
                user: user as usize,
                base: base as usize,
                size,
                align: layout.align(),
                seq,
                tag: if scoped { tag } else { 0 },
                state: 1,
                isbyte: if pk != 0 { 2 } else { isbyte as u8 },
                hnext: 0,
                lprev: 0,
                lnext: 0,
            };
            hash_insert(t, i);
            live_insert(t, i);
        }
    }
    if scoped {
        let live = T_LIVE_BYTES.fetch_add(size, Relaxed) + size;
        T_PEAK_BYTES.fetch_max(live, Relaxed);
        if isbyte {
            T_BYTE_ALLOCS.fetch_add(1, Relaxed);
        } else {
            T_OTHER_ALLOCS.fetch_add(1, Relaxed);
        }
        ev_update(|e| {
            if isbyte {
                e.byte_allocs += 1;
                e.byte_alloc_bytes += size;
                e.max_byte_alloc = e.max_byte_alloc.max(size);
            } else {
                e.other_allocs += 1;
            }
        });
    }
    user
}

unsafe fn do_dealloc(ptr: *mut u8, layout: Layout) {
    let p = ptr as usize;
    let isbyte_req = layout.align() == 1 && layout.size() > 0;
    let g = lock();
    let t = tab();
    let i = hash_find(t, p);
    if i == 0 {
        if isbyte_req {
            // classify
            let mut kind = VKind::FreeUnknown;
            let mut j = t.live_head;
            while j != 0 {
                let n = &t.nodes[j as usize];
                if p > n.user && p < n.user + n.size {
                    kind = VKind::FreeInterior;
                    break;
                }
                j = n.lnext;
            }
            report(kind, p, layout.size(), layout.align(), 0);
            drop(g);
            return; // cannot free safely: leak it
        }
        drop(g);
        System.dealloc(ptr, layout);
        return;
    }
    let n = t.nodes[i as usize];
    if n.state == 2 {
        report(VKind::DoubleFree, p, layout.size(), n.size, n.seq);
        drop(g);
        return;
    }
    ALL_FREES.fetch_add(1, Relaxed);
    if layout.size() != n.size || layout.align() != n.align {
        report(VKind::LayoutMismatch, p, n.size | (n.align << 48), layout.size() | (layout.align() << 48), n.seq);
    }
    if n.isbyte != 0 {
        if let Some((k, off)) = check_redzones(&n) {
            report(k, p, off, n.size, n.seq);
        }
    }
    live_remove(t, i);
    let tagged = n.tag != 0;
    let full = FULL.load(Relaxed);
    if full && n.size <= BIG {
        std::ptr::write_bytes(n.user as *mut u8, POISON_BYTE, n.size);
        t.nodes[i as usize].state = 2;
        while t.q_len >= QCAP - 1 {
            evict_one(t);
        }
        let tail = (t.q_head + t.q_len) % QCAP;
        t.q[tail] = i;
        t.q_len += 1;
        t.q_bytes += n.size;
        while t.q_bytes > QBYTES && t.q_len > 0 {
            evict_one(t);
        }
    } else {
        hash_remove(t, i);
        sys_release(&n);
        node_free(t, i);
    }
    drop(g);
    if tagged {
        T_LIVE_BYTES.fetch_sub(n.size, Relaxed);
        if n.isbyte != 0 {
            T_BYTE_FREES.fetch_add(1, Relaxed);
        }
    }
    if cur_scope().0 {
        ev_update(|e| {
            if n.isbyte != 0 {
                e.byte_frees += 1;
            } else {
                e.other_frees += 1;
            }
        });
    }
    DUMMY.store(0, Relaxed);
}

// ---------------------------------------------------------------- queries for the monitors

#[derive(Clone, Copy, Debug, PartialEq, Eq)]
pub struct Block {
    pub user: usize,
    pub size: usize,
    pub seq: u64,
    pub tag: u32,
    pub live: bool,
    pub isbyte: bool,
}

/// Live tracked block whose user area contains `addr` (one-past-the-end counts as inside).
pub fn find_live(addr: usize) -> Option<Block> {
    let _g = lock();
    unsafe {
        let t = tab();
        // strict containment first: with back-to-back placement the end of one block is the start of the next
        for strict in [true, false] {
            let mut j = t.live_head;
            while j != 0 {
                let n = &t.nodes[j as usize];
                if addr >= n.user && (addr < n.user + n.size || (!strict && addr == n.user + n.size)) {
                    return Some(Block { user: n.user, size: n.size, seq: n.seq, tag: n.tag, live: true, isbyte: n.isbyte != 0 });
                }
                j = n.lnext;
            }
        }
    }
    None
}

/// Quarantined (already freed) block containing `addr`.
pub fn find_freed(addr: usize) -> Option<Block> {
    let _g = lock();
    unsafe {
        let t = tab();
        for k in 0..t.q_len {
            let n = &t.nodes[t.q[(t.q_head + k) % QCAP] as usize];
            if addr >= n.user && addr <= n.user + n.size {
                return Some(Block { user: n.user, size: n.size, seq: n.seq, tag: n.tag, live: false, isbyte: n.isbyte != 0 });
            }
        }
    }
    None
}

/// (count, bytes) of live blocks tagged `tag` (tag 0 = all tagged).
pub fn tagged_live(tag: u32) -> (usize, usize) {
    let _g = lock();
    let (mut c, mut b) = (0, 0);
    unsafe {
        let t = tab();
        let mut j = t.live_head;
        while j != 0 {
            let n = &t.nodes[j as usize];
            if n.tag != 0 && (tag == 0 || n.tag == tag) {
                c += 1;
                b += n.size;
            }
            j = n.lnext;
        }
    }
    (c, b)
}

/// Describe up to `max` live blocks with the tag (for leak reports).
pub fn tagged_live_list(tag: u32, max: usize) -> Vec<Block> {
    let mut tmp = [Block { user: 0, size: 0, seq: 0, tag: 0, live: true, isbyte: false }; 16];
    let mut c = 0;
    {
        let _g = lock();
        unsafe {
            let t = tab();
            let mut j = t.live_head;
            while j != 0 && c < max.min(16) {
                let n = &t.nodes[j as usize];
                if n.tag == tag {
                    tmp[c] = Block { user: n.user, size: n.size, seq: n.seq, tag: n.tag, live: true, isbyte: n.isbyte != 0 };
                    c += 1;
                }
                j = n.lnext;
            }
        }
    }
    tmp[..c].to_vec()
}

/// Check the red zones of every live byte buffer; with `deep` also the poison of the quarantine.
pub fn sweep(deep: bool) {
    let _g = lock();
    unsafe {
        let t = tab();
        let mut j = t.live_head;
        while j != 0 {
            let n = t.nodes[j as usize];
            if n.isbyte != 0 {
                if let Some((k, off)) = check_redzones(&n) {
                    report(k, n.user, off, n.size, n.seq);
                    // repair so that it is reported once
                    std::ptr::write_bytes(n.base as *mut u8, RZ_BYTE, n.user - n.base);
                    let hi_len = n.base + real_layout(n.size).size() - (n.user + n.size);
                    std::ptr::write_bytes((n.user + n.size) as *mut u8, RZ_BYTE, hi_len);
                }
            }
            j = n.lnext;
        }
        if deep {
            for k in 0..t.q_len {
                let n = t.nodes[t.q[(t.q_head + k) % QCAP] as usize];
                if let Some(off) = check_poison(&n) {
                    report(VKind::WriteAfterFree, n.user, off, n.size, n.seq);
                    std::ptr::write_bytes(n.user as *mut u8, POISON_BYTE, n.size);
                }
            }
        }
    }
}

/// Release everything in the quarantine (after a deep sweep), e.g. between histories.
pub fn flush_quarantine() {
    let _g = lock();
    unsafe {
        let t = tab();
        while t.q_len > 0 {
            evict_one(t);
        }
    }
}

pub fn describe(v: &Violation) -> String {
    match v.kind {
        VKind::LayoutMismatch => format!(
            "layout-mismatch ptr={:#x} allocated(size={},align={}) freed(size={},align={}) blockseq={}",
            v.ptr,
            v.a & ((1 << 48) - 1),
            v.a >> 48,
            v.b & ((1 << 48) - 1),
            v.b >> 48,
            v.seq
        ),
        VKind::DoubleFree => format!("double-free ptr={:#x} size={} blockseq={}", v.ptr, v.b, v.seq),
        VKind::FreeUnknown => format!("free-unknown ptr={:#x} size={} align={}", v.ptr, v.a, v.b),
        VKind::FreeInterior => format!("free-interior ptr={:#x} size={} align={}", v.ptr, v.a, v.b),
        VKind::Overflow => format!("overflow block={:#x} size={} at end+{} blockseq={}", v.ptr, v.b, v.a, v.seq),
        VKind::Underflow => format!("underflow block={:#x} size={} at start-{} blockseq={}", v.ptr, v.b, v.a, v.seq),
        VKind::WriteAfterFree => format!("write-after-free block={:#x} size={} offset={} blockseq={}", v.ptr, v.b, v.a, v.seq),
        VKind::TableFull => "ledger table full".to_string(),
    }
}

// ---------------------------------------------------------------- pause (harness bookkeeping)

thread_local! {
    static PAUSED: Cell<u32> = const { Cell::new(0) };
}
/// While a `Pause` is alive, allocations of this thread are treated as out of scope.
pub struct Pause;
impl Pause {
    pub fn new() -> Pause {
        PAUSED.with(|p| p.set(p.get() + 1));
        Pause
    }
}
impl Default for Pause {
    fn default() -> Self {
        Self::new()
    }
}
impl Drop for Pause {
    fn drop(&mut self) {
        PAUSED.with(|p| p.set(p.get().saturating_sub(1)));
    }
}
fn paused() -> bool {
    PAUSED.try_with(|p| p.get() > 0).unwrap_or(true)
}
