"""Per-property check plans (which engine runs, on which builds, with which budgets)."""
import os
import time

import vlib
from vlib import Agg, Job, ASAN_ENV, build, binpath, finish, miri_jobs, run_jobs, seq_jobs

PLANS = {}


def plan(*ids):
    def deco(f):
        for i in ids:
            PLANS[i] = f
        return f

    return deco


def setup():
    """Build every configuration once (checks rebuild incrementally afterwards)."""
    t0 = time.time()
    for name in ["dbg", "rel", "asan-rel", "relsys", "dbg-serde", "dbg-nostd", "rel-nostd", "dbg-xp", "rel-xp", "tsan", "tsan-nohook"]:
        try:
            build(name)
        except SystemExit:
            print(f"setup: build {name} failed")
            return 2
    # warm the Miri sysroots / build caches
    jobs = miri_jobs("seqdrive", [["walk", "--count", "1", "--ops-min", "3", "--ops-max", "3"]], "miri-warm", seeds="0..1")
    run_jobs(jobs)
    run_probes("C05", Agg("C05"))  # warms the probe crate's build cache
    print(f"setup done in {time.time() - t0:.0f}s")
    return 0


# ----------------------------------------------------------------------------------- auxiliary compile probes

PROBES = {
    # bin: (property, accepted rustc error codes, what must be impossible)
    "reject_not_send_owner": ("C05", {"E0277"}, "Bytes::from_owner accepts an owner that is not Send (its destructor runs on whichever thread drops the last handle)"),
    "reject_not_sync_bytesmut_share": ("C05", {"E0277"}, "Chain/Take over a !Send Buf can be moved to another thread"),
    "reject_borrowed_owner": ("C03", {"E0597", "E0521", "E0716", "E0515", "E0505"}, "Bytes::from_owner accepts a non-'static owner (a Bytes could outlive borrowed memory)"),
    "reject_chunk_outlives_advance": ("C02", {"E0502", "E0499", "E0506"}, "a chunk() borrowed from a BytesMut survives a mutation of that BytesMut"),
}


def run_probes(prop, agg):
    """Auxiliary static guard (NOT runtime monitoring, see DESIGN 11.6): programs that safe code must not be able to
    write are compiled against /repo and must be rejected. A probe that compiles is a violation; a probe crate that
    cannot be checked at all (control bin fails) is inconclusive."""
    import subprocess
    pdir = os.path.join(vlib.ROOT, "probes")
    env = dict(os.environ, CARGO_TARGET_DIR=os.path.join(vlib.ROOT, "target-probes"), CARGO_NET_OFFLINE="true", RUSTFLAGS="")
    mine = [b for b, (p, _, _) in PROBES.items() if p == prop]
    if not mine:
        return
    def check(b):
        p = subprocess.run(["cargo", "check", "--offline", "--quiet", "--bin", b], cwd=pdir, env=env, stdout=subprocess.PIPE, stderr=subprocess.STDOUT, text=True, timeout=900)
        return p.returncode, p.stdout
    rc, out = check("control_send_owner")
    if rc != 0:
        agg.inconclusive.append("compile probes: the control program does not build: " + out[-300:].replace("\n", " | "))
        return
    for b in mine:
        _, codes, what = PROBES[b]
        rc, out = check(b)
        import re as _re
        seen = set(_re.findall(r"error\[(E\d+)\]", out))
        agg.add_counter("compile_probes", 1)
        if rc == 0:
            fake = Job(f"probe:{b}", ["cargo", "check", "--offline", "--bin", b], build=None, cwd=pdir)
            agg.viols.append((prop, f"compile-probe:{b}", f"probe:{b}", f"{what}: the probe program probes/src/bin/{b}.rs compiles against the current tree", fake))
        elif not (seen & codes):
            agg.inconclusive.append(f"compile probe {b}: rejected, but with {sorted(seen)} instead of {sorted(codes)}")
        else:
            agg.add_counter("compile_probes_rejected", 1)
            agg.cells.add(f"probe|{b}|rejected|{sorted(seen & codes)[0]}")


# ----------------------------------------------------------------------------------- E1

E1 = {
    # prop: (ooc, profile, asan, crash policy, level text)
    "C01": dict(ooc=False, profile="general", asan=False, crash="inconclusive"),
    "C02": dict(ooc=True, profile="general", asan=True, crash="violation"),
    "C03": dict(ooc=False, profile="general", asan=True, crash="inconclusive"),
    "C04": dict(ooc=False, profile="mut", asan=False, crash="inconclusive"),
    "C07": dict(ooc=False, profile="general", asan=False, crash="inconclusive"),
    "C08": dict(ooc=False, profile="general", asan=False, crash="inconclusive"),
    "C13": dict(ooc=True, profile="general", asan=True, crash="violation"),
}

E1_RULE = {
    "C01": "cases = op histories (bounded-exhaustive depth<=D from 16 start states with every drop order of <=3 survivors, plus seeded short histories of 3-6 ops from a start state and random walks of 30-150 ops); after every op every live handle is compared with its Vec<u8> model. A cell = (handle type | backing representation incl. refcount class | op | argument class | outcome); cells of pure drop ops are not counted.",
    "C02": "same histories with out-of-contract arguments mixed in (1/4 of ops), run on the ledger allocator (red zones, poison+quarantine, layout-exact free, address-range check of every handle after every op; even/odd/mixed address parity), under ASan, Miri and (thorough) valgrind. The Buf/BufMut side (raw copies of put_slice/copy_to_slice, UninitSlice, chunk_mut of Vec/BytesMut, Take::chunks_vectored, io::Cursor arithmetic) is driven by the reader/writer/cursor conformance engines under ASan, the ledger (guard bytes around fixed targets) and (thorough) valgrind; only memory findings of those runs belong to C02. Cells as in C01 plus OOC|repr|variant|outcome.",
    "C03": "same histories; at the end of each history survivors are dropped (every order for <=3 survivors in the exhaustive part) and the ledger balance of blocks allocated during the history must be 0; refcount conservation (stored count == live handles per control block, via H2) and owner as_ref/drop counters checked after every op; LSan and Miri leak checks on the same workload.",
    "C04": "BytesMut-centred histories; after every op all BytesMut regions [ptr,ptr+cap) are checked pairwise disjoint, disjoint from every live Bytes, and contained in one live ledger block; reserve/try_reclaim postconditions with boundary arguments (0, spare+-1, alloc-len(+1), alloc, 2*alloc+1); periodic write probes fill spare capacity and re-compare every other handle; unrepresentable requests (usize::MAX-len-k, isize::MAX+1+k) must panic / answer false; 144 abort-class requests (2^41 .. isize::MAX-len, one child process each) must panic or die of allocation failure, never return. Cells as in C01.",
    "C07": "same histories; each zero-copy op asserts result address == source address + logical offset (also for empty split parts) and that the ledger saw no align-1 allocation during the call. Cells as in C01.",
    "C08": "same histories; is_unique() of every live Bytes is evaluated after every op against a three-valued oracle built from the pool and the ledger (must-true / must-false / unspecified); try_into_mut is compared with is_unique and the address; try_reclaim/reserve on an empty sole handle must reclaim. A cell = uniq|repr|expectation|answer, plus the op cells.",
    "C13": "same histories with 1/4 of the ops replaced by an out-of-contract call (34 variants: len+1+k, cap+1+k, usize::MAX-k, isize::MAX+1+k, inverted / overflowing ranges, foreign and straddling slice_ref, oversized reserve/resize/put_bytes); each must panic or be the documented no-op, and a (ptr,len,cap,content-hash) snapshot of every handle must be unchanged afterwards; the history then continues under all other monitors and ends with the leak balance; plus 144 abort-class requests in child processes (accepted: panic or allocation-failure abort). Cells = OOC|repr|variant|outcome plus op cells.",
}


def nontrivial_cell(c):
    return "|drop|" not in c and not c.startswith("ctor|")


def e1_jobs(prop, tier, seed):
    c = E1[prop]
    quick = tier != "thorough"
    base = ["--prop", prop] + (["--ooc"] if c["ooc"] else []) + (["--profile", "mut"] if c["profile"] == "mut" else [])
    crash = c["crash"]
    jobs = []
    n = vlib.JOBS
    # bounded-exhaustive part (release + ledger, mixed parity)
    if quick:
        jobs += seq_jobs("rel", "exh", seed, n, ["--depth", "2", "--secs", "150"] + base, "exh-rel", crash=crash, timeout=600)
        jobs += seq_jobs("rel", "exh", seed, n, ["--depth", "2", "--secs", "150", "--parity", "packed"] + base, "exh-packed", crash=crash, timeout=600)
    else:
        jobs += seq_jobs("rel", "exh", seed, 2 * n, ["--depth", "3", "--secs", "420"] + base, "exh-rel", crash=crash, timeout=1200)
        jobs += seq_jobs("rel", "exh", seed, n, ["--depth", "2", "--secs", "420", "--parity", "packed"] + base, "exh-packed", crash=crash, timeout=1200)
        jobs += seq_jobs("dbg", "exh", seed, n, ["--depth", "2", "--secs", "420"] + base, "exh-dbg", crash=crash, timeout=1200)
    # random walks on the ledger builds; the three parity modes are spread over the shards
    wr, wd = (500, 150) if quick else (12000, 4000)
    for bname, cnt in (("rel", wr), ("dbg", wd)):
        js = seq_jobs(bname, "walk", seed, n, ["--count", str(cnt)] + base, "walk-" + bname, crash=crash, timeout=1500)
        for k, j in enumerate(js):
            # parity modes spread over the shards; 'packed' = no red zones, buffers placed back to back
            j.argv += ["--parity", ["mixed", "odd", "even", "packed"][k % 4]]
        jobs += js
    # short histories (start state + 3..6 ops)
    sr, sd = (15000, 3000) if quick else (300000, 60000)
    for bname, cnt in (("rel", sr), ("dbg", sd)):
        js = seq_jobs(bname, "walk", seed + 17, n, ["--short", "--count", str(cnt)] + base, "short-" + bname, crash=crash, timeout=1500)
        for k, j in enumerate(js):
            j.argv += ["--parity", ["odd", "mixed", "packed", "even"][k % 4]]
        jobs += js
    # ASan (+LSan) on the same seeds
    if c["asan"]:
        cnt = 300 if quick else 8000
        aj = seq_jobs("asan-rel", "walk", seed, n, ["--count", str(cnt)] + base, "asan-rel", kind="asan", crash=crash, env=ASAN_ENV, timeout=1500)
        for k, j in enumerate(aj):
            j.argv += ["--parity", ["odd", "even", "mixed"][k % 3]]  # shifting allocator (no ledger under ASan)
        jobs += aj
        if not quick:
            build("asan-dbg", ["seqdrive"])
            aj = seq_jobs("asan-dbg", "walk", seed + 1000, n, ["--count", "3000"] + base, "asan-dbg", kind="asan", crash=crash, env=ASAN_ENV, timeout=1500)
            for k, j in enumerate(aj):
                j.argv += ["--parity", ["mixed", "odd", "even"][k % 3]]
            jobs += aj
    # Miri shards (exact bounds / provenance / uninitialised reads / leaks); odd addresses occur naturally
    nm, cnt = (6, 3) if quick else (32, 8)
    args = []
    for k in range(nm):
        args.append(["walk", "--seed", str(seed * 7919 + k), "--shard", str(k), "--nshards", str(nm), "--count", str(cnt), "--ops-min", "25", "--ops-max", "45"] + base)
    mj = miri_jobs("seqdrive", args, "miri", seeds=None, timeout=1500 if quick else 3600)
    for k, j in enumerate(mj):
        j.env["MIRIFLAGS"] = f"-Zmiri-seed={seed * 31 + k}"
        j.crash = crash
    jobs += mj
    # the same walks interpreted for a 32-bit target (pointer-tag arithmetic, usize-dependent limits), thorough only
    if not quick:
        args32 = [["walk", "--seed", str(seed * 7919 + 100 + k), "--shard", str(k), "--nshards", "6", "--count", "6", "--ops-min", "25", "--ops-max", "45"] + base for k in range(6)]
        mj32 = miri_jobs("seqdrive", args32, "miri-i686", seeds=None, target="i686-unknown-linux-gnu", timeout=3600)
        for k, j in enumerate(mj32):
            j.env["MIRIFLAGS"] = f"-Zmiri-seed={seed * 37 + k}"
            j.crash = crash
        jobs += mj32
    # 32-bit only: a front offset beyond usize::MAX>>5 promotes the inline BytesMut inside advance();
    # reached under Miri i686 with a 128 MiB zeroed buffer
    if prop in ("C01", "C02", "C03", "C04", "C07", "C08"):
        nb = 2 if quick else 8
        bj = miri_jobs("seqdrive", [["bigoff", "--seed", str(seed * 5 + k), "--ops", "10", "--prop", prop] for k in range(nb)], "miri-i686-bigoff", seeds=None, target="i686-unknown-linux-gnu", timeout=1500)
        for k, j in enumerate(bj):
            j.env["MIRIFLAGS"] = f"-Zmiri-seed={seed + k}"
            j.crash = crash
        jobs += bj
    # abort-class requests (representable but unallocatable capacities), one child process each:
    # accepted outcomes are a panic or the allocation-failure abort; "returned" is judged by the monitors
    if prop in ("C04", "C13"):
        exe = binpath("rel", "seqdrive")
        for st in (8, 9, 10, 11, 12, 15):
            for op in range(4):
                for cls in range(6):
                    jobs.append(Job(f"single:{st}:{op}:{cls}", [exe, "single", "--start", str(st), "--op", str(op), "--arg", str(cls)], build="rel", crash="violation" if prop == "C13" else "inconclusive", abort_ok=True, timeout=120))
    # C02 also covers the unsafe code behind Buf / BufMut (raw copies in put_slice / copy_to_slice, UninitSlice,
    # Vec::chunk_mut, the Take::chunks_vectored transmute): the conformance engines run under the memory oracles;
    # only memory findings are owned here (sanitizer reports, ledger violations, guard bytes around fixed targets)
    if prop == "C02":
        cnt = "8000" if quick else "250000"
        cap = [] if quick else ["--secs", "300"]
        noleak = dict(ASAN_ENV, ASAN_OPTIONS=ASAN_ENV["ASAN_OPTIONS"].replace("detect_leaks=1", "detect_leaks=0"))  # these engines leak 'static test data on purpose
        jobs += buf_jobs("rel", "writers", seed + 21, n // 2, ["--count", cnt] + cap, "buf-wr-rel", crash=crash)
        jobs += buf_jobs("asan-rel", "writers", seed + 22, n // 2, ["--count", cnt] + cap, "buf-wr-asan", kind="asan", env=noleak, crash=crash, parity=False)
        jobs += buf_jobs("asan-rel", "readers", seed + 23, n // 2, ["--count", cnt] + cap, "buf-rd-asan", kind="asan", env=noleak, crash=crash, parity=False)
        jobs += buf_jobs("asan-rel", "cursors", seed, 4, [], "buf-curs-asan", kind="asan", env=noleak, crash=crash, parity=False)
        if not quick:
            jobs += buf_valgrind("readers", seed + 24, 8, ["--count", "20000"], "buf-rd-valgrind", crash=crash)
            jobs += buf_valgrind("writers", seed + 25, 8, ["--count", "20000"], "buf-wr-valgrind", crash=crash)
    # valgrind memcheck on the plain release binary (thorough, C02 only)
    if prop == "C02" and not quick:
        build("relsys", ["seqdrive"])
        exe = binpath("relsys", "seqdrive")
        for k in range(8):
            argv = ["valgrind", "--error-exitcode=9", "--quiet", "--leak-check=no", exe, "walk", "--seed", str(seed), "--shard", str(k), "--nshards", "8", "--count", "40", "--ooc", "--parity", ["odd", "even"][k % 2]]
            jobs.append(Job(f"valgrind:{k}", argv, kind="valgrind", build="relsys", crash=crash, timeout=1500))
    return jobs


@plan("C01", "C02", "C03", "C04", "C07", "C08", "C13")
def run_e1(prop, tier, seed, t0):
    jobs = e1_jobs(prop, tier, seed)
    agg = Agg(prop)
    for j in run_jobs(jobs):
        agg.absorb(j)
    run_probes(prop, agg)
    exh_complete = bool(agg.counters.get("exh_complete", 0)) and agg.done == agg.jobs
    extra = {
        "exhaustive_part": {"depth": agg.counters.get("exh_depth", 0), "complete": exh_complete},
        "explanation": "held on the executions listed here; nothing is claimed about histories that were not run",
    }
    assumptions = [
        "the ledger allocator, ASan, Miri and valgrind report what they are documented to report",
        "H2 introspection (__verif_repr) reads the fields it names; it is used only for coverage, refcount conservation and classifying empty handles",
        "single-threaded histories: every point between two calls is quiescent",
    ]
    level = "fault_enumeration" if prop == "C13" else "exploration"
    return finish(prop, tier, seed, agg, t0, level, E1_RULE[prop], nontrivial_filter=nontrivial_cell, extra=extra, assumptions=assumptions)


# ----------------------------------------------------------------------------------- E4


def tbl_jobs(buildname, mode, seed, nshards, extra, label, parity=None):
    build(buildname, ["cmpfmt"])
    exe = binpath(buildname, "cmpfmt")
    jobs = []
    for s in range(nshards):
        argv = [exe, mode, "--seed", str(seed), "--shard", str(s), "--nshards", str(nshards)] + extra
        if parity:
            argv += ["--parity", parity[s % len(parity)]]
        jobs.append(Job(f"{label}:{s}", argv, build=buildname, timeout=1200))
    return jobs


@plan("C14")
def run_c14(prop, tier, seed, t0):
    quick = tier != "thorough"
    extra = ["--random", "3000" if quick else "200000"] + ([] if quick else ["--all-reps"])
    jobs = tbl_jobs("dbg", "cmp", seed, 8 if quick else 16, extra, "cmp-dbg", parity=["odd", "even"])
    jobs += tbl_jobs("rel", "cmp", seed + 1, 4 if quick else 16, extra, "cmp-rel", parity=["even", "odd"])
    # word-at-a-time or pointer-width dependent comparison / hashing code would only go wrong on other targets:
    # seeded pairs (no exhaustive part) interpreted for big-endian s390x and 32-bit i686 under Miri
    for tname, target in (("s390x", "s390x-unknown-linux-gnu"), ("i686", "i686-unknown-linux-gnu")):
        mj = miri_jobs("cmpfmt", [["cmp", "--no-exhaustive", "--seed", str(seed + k), "--shard", str(k), "--nshards", "2", "--random", "40" if quick else "300"] for k in range(2)], "miri-" + tname + "-cmp", seeds=None, target=target, timeout=2400)
        for j in mj:
            j.env["MIRIFLAGS"] = "-Zmiri-ignore-leaks"
        jobs += mj
    agg = Agg(prop)
    for j in run_jobs(jobs):
        agg.absorb(j)
    rule = ("every comparison impl instantiation (Bytes/BytesMut x {Self,[u8],&[u8],str,&str,Vec<u8>,&Vec<u8>,String,&String,&Self, the other crate type}, both operand orders where the impl exists) "
            "is invoked through the operators ==,!=,<,<=,>,>= and partial_cmp/cmp on all 85x85 pairs of strings of length<=3 over {00,'a','b',7f} (exhaustive) plus seeded random longer/prefix/non-UTF-8 pairs, "
            "crate-side operands in 6 Bytes / 4 BytesMut representations, odd and even allocator parity; Hash (SipHash and a hasher that keeps the write_* calls apart) and Borrow<[u8]> compared with the slice; the seeded pairs (incl. pairs that differ in two bytes of opposite sense inside one 8-byte block) are also interpreted for big-endian s390x and 32-bit i686 under Miri. "
            "A cell = (impl | eq/ord | relation class eq/lt/lt-prefix/gt/gt-prefix).")
    return finish(prop, tier, seed, agg, t0, "exploration", rule, extra={"impl_pairs": 34}, exhaustive=True, min_eval_key="comparisons",
                  assumptions=["<[u8]>::cmp / == / DefaultHasher on the slices are the reference semantics"])


@plan("C15")
def run_c15(prop, tier, seed, t0):
    quick = tier != "thorough"
    jobs = tbl_jobs("dbg-serde", "fmt", seed, 8, ["--random", "2000" if quick else "100000"], "fmt", parity=["odd", "even"])
    jobs += tbl_jobs("dbg-serde", "serde", seed, 8, ["--random", "200" if quick else "5000"], "serde", parity=["even", "odd"])
    # word-at-a-time or pointer-width dependent formatting code would only go wrong on other targets: all single bytes
    # and seeded strings (also long ones) interpreted for 32-bit i686 and big-endian s390x under Miri
    for tname, target in (("i686", "i686-unknown-linux-gnu"), ("s390x", "s390x-unknown-linux-gnu")):
        mj = miri_jobs("cmpfmt", [["fmt", "--no-exhaustive", "--seed", str(seed + k), "--shard", str(k), "--nshards", "4", "--random", "10" if quick else "150"] for k in range(4)], "miri-" + tname + "-fmt", seeds=None, target=target, timeout=2400)
        for j in mj:
            j.env["MIRIFLAGS"] = "-Zmiri-ignore-leaks"
        jobs += mj
    agg = Agg(prop)
    for j in run_jobs(jobs):
        agg.absorb(j)
    agg.counters["evaluations_total"] = agg.counters.get("formatted", 0) + agg.counters.get("token_streams", 0)
    rule = ("Debug output of every byte string in the universe (empty, all 256 single bytes x 6 representations, all 65536 pairs, seeded random longer strings rich in escapes) is parsed back by an independent parser of the Rust byte-string-literal grammar and must decode to the contents (single bytes and seeded strings also interpreted for 32-bit i686 and big-endian s390x under Miri); {:x}/{:X} parsed back as two hex digits per byte; "
            "with feature serde every string is serialized (must emit Bytes(contents)) and deserialized into Bytes and BytesMut through the token streams Bytes, BorrowedBytes, ByteBuf, Seq(len), Seq(no hint) and (valid UTF-8) Str, BorrowedStr, String, incl. lengths around and beyond 4096. "
            "A cell = escape class of a byte / adjacency class of a pair / serde entry point x length class.")
    return finish(prop, tier, seed, agg, t0, "exploration", rule, exhaustive=True, min_eval_key="evaluations_total",
                  assumptions=["the hand-written literal parser implements the Rust reference grammar for byte strings", "serde_test's token (de)serializer is a faithful serde data model"])


# ----------------------------------------------------------------------------------- E3


def buf_jobs(buildname, mode, seed, nshards, extra, label, kind="native", crash="inconclusive", env=None, parity=True, timeout=1200):
    build(buildname, ["bufconf"])
    exe = binpath(buildname, "bufconf")
    jobs = []
    for s in range(nshards):
        argv = [exe, mode, "--seed", str(seed), "--shard", str(s), "--nshards", str(nshards)] + extra
        if parity or kind == "asan":
            argv += ["--parity", ["mixed", "odd", "even"][s % 3]]
        jobs.append(Job(f"{label}:{s}", argv, env=env, kind=kind, build=buildname, crash=crash, timeout=timeout))
    return jobs


def buf_miri(mode, args_per_job, label, seed, target=None, ignore_leaks=True, timeout=1500):
    flags = "-Zmiri-ignore-leaks" if ignore_leaks else ""
    js = miri_jobs("bufconf", [[mode] + a for a in args_per_job], label, seeds=None, target=target, timeout=timeout)
    for k, j in enumerate(js):
        j.env["MIRIFLAGS"] = f"-Zmiri-seed={seed * 13 + k} {flags}".strip()
    return js


def buf_valgrind(mode, seed, nshards, extra, label, crash="inconclusive"):
    """valgrind memcheck on the plain release binary (system allocator, no ledger): invalid reads/writes/frees and
    branches on uninitialised bytes (the engines read what the crate hands back)"""
    build("relsys", ["bufconf"])
    exe = binpath("relsys", "bufconf")
    jobs = []
    for s in range(nshards):
        argv = ["valgrind", "--error-exitcode=9", "--quiet", "--leak-check=no", exe, mode, "--seed", str(seed), "--shard", str(s), "--nshards", str(nshards), "--parity", ["odd", "even", "mixed"][s % 3]] + extra
        jobs.append(Job(f"{label}:{s}", argv, kind="valgrind", build="relsys", crash=crash, timeout=1500))
    return jobs


def run_and_finish(prop, tier, seed, t0, jobs, rule, level="exploration", key="cases", exhaustive=None, extra=None, assumptions=None, flt=None):
    agg = Agg(prop)
    for j in run_jobs(jobs):
        agg.absorb(j)
    return finish(prop, tier, seed, agg, t0, level, rule, nontrivial_filter=flt, extra=extra, assumptions=assumptions, exhaustive=exhaustive, min_eval_key=key)


READER_RULE = ("reader trees built from the crate's real adapters (Box<dyn Buf> at every level: slice, Bytes x5 reps, BytesMut x3, Cursor at a position, wrapped VecDeque, harness multi-chunk Seg with default / multi-slice / trait-default chunks_vectored; Chain, Take, &mut T, Box<T> to depth 4) are stepped in lock-step with a flat Vec<u8> model: "
               "remaining/chunk laws after every op, advance, chunks_vectored (sentinel-filled dst), copy_to_slice, copy_to_bytes, get_u8/get_u32_le, into_iter, out-of-range arguments must panic; driven through dyn, &mut T and Box<T>. "
               "Part 1 enumerates every fragmentation of sequences of length<=6 (with empty chunks) x 7 wrappers x every pair of ops; part 2 is seeded random trees and op sequences. "
               "A cell = (outermost adapter | op | whether the op ended inside / at / across a chunk, a/b or limit boundary | access path).")


@plan("C09")
def run_c09(prop, tier, seed, t0):
    quick = tier != "thorough"
    n = vlib.JOBS
    cap = [] if quick else ["--secs", "500"]  # thorough: time-capped, the evidence counts what actually ran
    jobs = buf_jobs("dbg", "frag", seed, n, ["--maxlen", "6" if quick else "7"], "frag-dbg")
    jobs += buf_jobs("rel", "readers", seed, n if quick else 3 * n, ["--count", "40000" if quick else "400000"] + cap, "rd-rel")
    jobs += buf_jobs("dbg", "readers", seed + 1, n, ["--count", "15000" if quick else "400000"] + cap, "rd-dbg")
    nm = 4 if quick else 16
    jobs += buf_miri("readers", [["--seed", str(seed), "--shard", str(k), "--nshards", str(nm), "--count", "60" if quick else "250"] for k in range(nm)], "miri-rd", seed)
    # io::Cursor sweep (positions inside / past the end / around 2^32, 2^63, u64::MAX x counts near usize::MAX):
    # complete natively in both profiles (overflow checks on and off), slices of it on a 32-bit target under Miri
    jobs += buf_jobs("dbg", "cursors", seed, 4, [], "curs-dbg")
    jobs += buf_jobs("rel", "cursors", seed, 4, [], "curs-rel")
    cs = 64 if quick else 16
    picks = [(seed * 29 + k * 11) % cs for k in range(3 if quick else 16)]
    jobs += buf_miri("cursors", [["--shard", str(k), "--nshards", str(cs)] for k in picks], "miri-i686-curs", seed, target="i686-unknown-linux-gnu")
    jobs += buf_miri("readers", [["--seed", str(seed + 5), "--shard", str(k), "--nshards", "2", "--count", "60" if quick else "250"] for k in range(2)], "miri-i686-rd", seed, target="i686-unknown-linux-gnu")
    # BytesMut as a Buf across the 32-bit limit of its front-offset bits (128 MiB buffer): natively (64-bit: no
    # representation change) and under Miri i686, where the advance crossing 2^27-1 promotes the handle
    jobs += buf_jobs("rel", "bigadv", seed, 1, [], "bigadv-rel", parity=False)
    jobs += buf_miri("bigadv", [["--shard", str(k), "--nshards", "4"] for k in range(4)], "miri-i686-bigadv", seed, target="i686-unknown-linux-gnu")
    return run_and_finish(prop, tier, seed, t0, jobs, READER_RULE + " Part 3 sweeps io::Cursor as a Buf: data lengths 0..=4 x positions inside / at / past the end and around 2^32, 2^33, 2^63, u64::MAX (beyond usize on a 32-bit target) x bare / Take / Chain x every op with ordinary and near-usize::MAX counts, after 0 or 1 earlier ops; complete natively in debug and release, slices under Miri i686. Part 4: a 128 MiB BytesMut advanced across the 32-bit limit of its front-offset bits (bare / Take / Chain / &mut), natively and under Miri i686 (where that advance changes the representation).", extra={"fragmentations_exhaustive_up_to_len": 6 if quick else 7},
                          assumptions=["the harness Seg buffer itself obeys the Buf laws (it is checked by the same oracle as a bare leaf)"])


@plan("C12")
def run_c12(prop, tier, seed, t0):
    quick = tier != "thorough"
    n = vlib.JOBS
    cap = [] if quick else ["--secs", "400"]
    jobs = buf_jobs("dbg", "frag", seed, n, ["--maxlen", "5" if quick else "7"], "frag-dbg")
    # (the engines leak some 'static test data per case and the ledger's table holds 2^20 blocks: thorough runs use more,
    # shorter processes instead of longer ones)
    jobs += buf_jobs("rel", "readers", seed + 2, n if quick else 3 * n, ["--count", "40000" if quick else "400000"] + cap, "rd-rel")
    jobs += buf_jobs("dbg", "readers", seed + 3, n // 2, ["--count", "10000" if quick else "300000"] + cap, "rd-dbg")
    jobs += buf_jobs("rel", "writers", seed, n if quick else 4 * n, ["--count", "40000" if quick else "250000"] + cap, "wr-rel")
    jobs += buf_jobs("dbg", "writers", seed + 1, n // 2, ["--count", "10000" if quick else "300000"] + cap, "wr-dbg")
    rule = (READER_RULE + " Additionally (the part owned by C12) every tree is taken apart afterwards with the crate's own into_inner()/get_ref()/limit(): each inner buffer must hold exactly model[transferred..], limit() must equal n - transferred (also after set_limit in mid-stream, limits 0 / inside / equal / beyond / usize::MAX); "
            "Reader::read / fill_buf+consume / read_to_end and Writer::write / flush at the root must transfer min(available, requested) and never fail; writer trees (Chain, Limit, &mut, Box over Vec, BytesMut, &mut [u8], &mut [MaybeUninit<u8>]) must distribute bytes first-buffer-first within their limits.")
    return run_and_finish(prop, tier, seed, t0, jobs, rule, assumptions=["expected per-leaf byte counts are computed from the adapter tree by the harness (distribute())"])


@plan("C10")
def run_c10(prop, tier, seed, t0):
    quick = tier != "thorough"
    n = vlib.JOBS
    deep = [] if quick else ["--deep"]
    jobs = buf_jobs("dbg", "getters", seed, n, deep, "get-dbg")
    jobs += buf_jobs("rel", "getters", seed, n, deep, "get-rel")
    # Miri: host, big-endian (s390x) and 32-bit (i686) interpret slices of the same table
    tot = 600 if quick else 120
    per = 2 if quick else 8
    for tname, target in (("host", None), ("s390x", "s390x-unknown-linux-gnu"), ("i686", "i686-unknown-linux-gnu")):
        args = [["--shard", str((seed * 37 + k * 53) % tot), "--nshards", str(tot)] for k in range(per)]
        jobs += buf_miri("getters", args, "miri-" + tname, seed, target=target, timeout=2400)
    # the native-endian rows completely (reduced implementors / patterns / paths) on the big-endian target: the
    # `cfg!(target_endian = "big")` arms of the _ne getters run nowhere else
    jobs += buf_miri("getters", [["--only-ne", "--lite", "--shard", str(k), "--nshards", "8"] for k in range(8)], "miri-s390x-ne", seed, target="s390x-unknown-linux-gnu", timeout=2400)
    rule = ("exhaustive table: each of the 38 get_X and 38 try_get_X methods (u8..i128, f32/f64, uint/int with nbytes 0..=9; be/le/ne) x 8 value patterns (00.., ff.., 80 00.., 7f ff.., ..80, 01 02 03.., 2 pseudo-random) "
            "x 11 implementors (slice, Bytes, BytesMut, Cursor, wrapped VecDeque, Seg, Chain, Chain(&mut Seg), Take(Chain(SegMulti)), Seg with every byte in its own chunk, Take(Chain(slice, endless source)); for empty input also io::Cursor positioned past its data / at 2^32+1 / at u64::MAX) x every position of one chunk boundary before/inside/after the value (a second boundary for widths>=4) x call path (dyn, &mut T, Box<T>) "
            "x every shortfall 0..width-1; oracle = from_{be,le,ne}-style reference decode with arithmetic sign extension, Err{requested,available}, cursor position and left-over bytes. The native table is complete; Miri (host, s390x big-endian, i686) interprets a seeded slice of it, and all native-endian rows (reduced implementor / pattern / path set) on s390x. "
            "A cell = (type+endianness | width | implementor | path | boundary class / short).")
    return run_and_finish(prop, tier, seed, t0, jobs, rule, key="getter_calls", exhaustive=True,
                          assumptions=["the reference decoder in harness/src/bufx/getters.rs", "_ne methods are compared with the target's endianness (big-endian reached only under Miri s390x)"])


@plan("C11")
def run_c11(prop, tier, seed, t0):
    quick = tier != "thorough"
    n = vlib.JOBS
    cap = [] if quick else ["--secs", "500"]
    jobs = buf_jobs("rel", "writers", seed, n if quick else 6 * n, ["--count", "60000" if quick else "250000"] + cap, "wr-rel")
    jobs += buf_jobs("dbg", "writers", seed + 1, n if quick else 2 * n, ["--count", "20000" if quick else "200000"] + cap, "wr-dbg")
    jobs += buf_jobs("asan-rel", "writers", seed + 2, n // 2, ["--count", "20000" if quick else "500000"] + cap, "asan-rel", kind="asan", env=dict(ASAN_ENV, ASAN_OPTIONS=ASAN_ENV["ASAN_OPTIONS"].replace("detect_leaks=1", "detect_leaks=0")), parity=False)
    nm = 4 if quick else 16
    jobs += buf_miri("writers", [["--seed", str(seed), "--shard", str(k), "--nshards", str(nm), "--count", "50" if quick else "200"] for k in range(nm)], "miri-wr", seed)
    jobs += buf_valgrind("writers", seed + 4, 4 if quick else 16, ["--count", "1500" if quick else "40000"], "valgrind-wr")
    # putter table (every put_X x nbytes x value pattern x leaf-boundary position x path): complete natively in both
    # profiles; seeded slices of it (thorough: all of it) for the host, big-endian and 32-bit targets under Miri
    jobs += buf_jobs("dbg", "putters", seed, 2, [], "put-dbg")
    jobs += buf_jobs("rel", "putters", seed, 2, [], "put-rel")
    tot = 24 if quick else 8
    per = 2 if quick else 8
    for tname, target in (("host", None), ("s390x", "s390x-unknown-linux-gnu"), ("i686", "i686-unknown-linux-gnu")):
        args = [["--shard", str((seed * 7 + k * 5) % tot), "--nshards", str(tot)] for k in range(per)]
        jobs += buf_miri("putters", args, "miri-" + tname + "-put", seed, target=target, timeout=2400)
    if quick:
        # the native-endian rows completely on the big-endian target (their big-endian arms run nowhere else)
        jobs += buf_miri("putters", [["--only-ne", "--shard", str(k), "--nshards", "4"] for k in range(4)], "miri-s390x-put-ne", seed, target="s390x-unknown-linux-gnu", timeout=2400)
    # the `cfg!(target_endian = "big")` arms of the _ne putters are dead code on x86: big-endian (s390x) and 32-bit
    # (i686) targets interpret slices of the same writer workload under Miri
    nx = 2 if quick else 8
    for tname, target in (("s390x", "s390x-unknown-linux-gnu"), ("i686", "i686-unknown-linux-gnu")):
        jobs += buf_miri("writers", [["--seed", str(seed + 7), "--shard", str(k), "--nshards", str(nx), "--count", "40" if quick else "150"] for k in range(nx)], "miri-" + tname + "-wr", seed, target=target, timeout=2400)
    rule = ("writer trees (Vec<u8> and BytesMut in 3 kinds with/without initial contents and spare capacity, &mut [u8] and &mut [MaybeUninit<u8>] inside guarded arenas, Chain, Limit incl. through &mut dyn, nested to depth 4, driven through dyn / &mut T / Box<T>) receive sequences of put_slice, put_bytes, every typed put_X (38 methods, values incl. sign-bit patterns, nbytes 0..=9), put(Buf) with reader trees (specialised and default put), set_limit; "
            "sizes are chosen to fit, fill exactly, straddle leaf ends, trigger growth or not fit. After every step remaining_mut/chunk_mut laws; at the end the tree is dismantled: contents == initial ++ encodings in call order, guard bytes and bytes beyond the cursor untouched, per-leaf byte counts as chain/limit dictate, non-fitting writes must panic, every typed value is read back with the matching get_X; plus the putter table: every put_X row x nbytes 0..=9 x 6 value patterns x 9 targets (leaf boundary before / inside / behind the value, one byte too short) x call path, complete natively and in slices for big-endian s390x and 32-bit i686 under Miri; run on the ledger (debug, release), under ASan, Miri (host, big-endian s390x, 32-bit i686) and valgrind memcheck. "
            "A cell = (outermost target | method | fits/exact/nofit | path).")
    return run_and_finish(prop, tier, seed, t0, jobs, rule, assumptions=["reference encodings = low-order bytes of the value in the named byte order"])


@plan("C17")
def run_c17(prop, tier, seed, t0):
    quick = tier != "thorough"
    n = vlib.JOBS
    cnt = "3000" if quick else "150000"
    jobs = buf_jobs("dbg", "faults", seed, n, ["--count", cnt], "flt-dbg", crash="violation")
    jobs += buf_jobs("rel", "faults", seed + 1, n, ["--count", cnt], "flt-rel", crash="violation")
    jobs += buf_jobs("asan-rel", "faults", seed + 2, n, ["--count", cnt], "asan-rel", kind="asan", env=ASAN_ENV, crash="violation", parity=False)
    if not quick:
        build("asan-dbg", ["bufconf"])
        jobs += buf_jobs("asan-dbg", "faults", seed + 3, n, ["--count", cnt], "asan-dbg", kind="asan", env=ASAN_ENV, crash="violation", parity=False)
    # serde visit_seq fed by a SeqAccess with lying size hints / injected errors (feature serde)
    build("dbg-serde", ["cmpfmt"])
    exe = binpath("dbg-serde", "cmpfmt")
    for s in range(4):
        jobs.append(Job(f"serdelie:{s}", [exe, "serdelie", "--seed", str(seed), "--shard", str(s), "--nshards", "4"], build="dbg-serde", crash="violation", timeout=1200))
    nm = 6 if quick else 24
    mj = buf_miri("faults", [["--seed", str(seed), "--shard", str(k), "--nshards", str(nm * (12 if quick else 3)), "--count", "8" if quick else "40"] for k in range(nm)], "miri-flt", seed, ignore_leaks=False)
    for j in mj:
        j.crash = "violation"
    jobs += mj
    # owner / iterator / IntoIter entries completely under Miri (uninitialised reads are only visible there)
    mj2 = buf_miri("faults", [["--seed", str(seed), "--shard", str(k), "--nshards", "4", "--count", "0", "--entry-from", "18", "--entry-to", "24", "--no-short"] for k in range(4)], "miri-iter", seed, ignore_leaks=False)
    for j in mj2:
        j.crash = "violation"
    jobs += mj2
    # consumers fed by a Buf whose overridden copy_to_slice / try_copy_to_slice under-fill (short reads): what
    # the crate returns must still be initialised memory -- only Miri sees that
    mj3 = buf_miri("faults", [["--seed", str(seed), "--shard", str(k), "--nshards", "4", "--count", "0", "--entry-from", "30", "--entry-to", "36", "--no-short"] for k in range(4)], "miri-cts", seed, ignore_leaks=False)
    for j in mj3:
        j.crash = "violation"
    jobs += mj3
    # valgrind memcheck on the plain release binary: the whole single-lie enumeration plus seeded schedules
    jobs += buf_valgrind("faults", seed + 4, 8 if quick else 16, ["--count", "300" if quick else "20000"], "valgrind-flt", crash="violation")
    # owner whose destructor panics, iterator panicking in the middle of extend: completely under Miri as well
    mj4 = buf_miri("faults", [["--seed", str(seed), "--shard", str(k), "--nshards", "4", "--count", "0", "--entry-from", "36", "--entry-to", "38", "--no-short"] for k in range(4)], "miri-panic", seed, ignore_leaks=False)
    for j in mj4:
        j.crash = "violation"
    jobs += mj4
    rule = ("fault injection: a Buf written in safe code lies according to a plan (which trait call number misreports: remaining +1/+9/-1/usize::MAX/0, chunk shorter/empty/a different valid slice, advance ignored/halved/doubled, or panics; chunks_vectored returning more than dst.len(); a call budget makes every schedule terminate), "
            "a variant overriding copy_to_slice / try_copy_to_slice to return without filling dst, plus AsRef owners answering differently per call / panicking / panicking in their destructor and iterators with wrong size_hints or panicking in the middle of extend (the handle is read, written and dropped afterwards). 38 crate entry points plus serde's visit_seq (lying SeqAccess::size_hint, injected element errors) consume them (every getter row, copy_to_slice/bytes incl. Chain/Take, chunks_vectored via Take/Chain, put into Vec/BytesMut/slices/Limit/Chain, Reader, IntoIter, from_owner, Extend/FromIterator, forwarding impls). "
            "Exhaustive over entry x first lying call<=6 x 12 lie codes; every getter row on a buffer shorter than the value whose first remaining() over-reports x chunk lie x second-remaining lie; then seeded multi-lie schedules. Oracle: ledger violations, ledger leak balance after unwinding, ASan/LSan, Miri, valgrind memcheck (results are read, so handing out uninitialised bytes is reported), process status; wrong results and panics are allowed. "
            "A cell = (entry point | outcome ok/panic/budget | number of lies).")
    return run_and_finish(prop, tier, seed, t0, jobs, rule, level="fault_enumeration", key="fault_cases",
                          assumptions=["BufMut is an unsafe trait: lying BufMut implementations are out of scope", "size_hint lies are limited to values that either panic in Vec (capacity overflow) or are small; multi-GiB requests (allocation-failure aborts) are not issued"])


# ----------------------------------------------------------------------------------- E5


@plan("C18")
def run_c18(prop, tier, seed, t0):
    n = vlib.JOBS
    build("rel", ["recycle"])
    exe = binpath("rel", "recycle")
    jobs = [Job(f"recycle:{s}", [exe, "run", "--seed", str(seed), "--shard", str(s), "--nshards", str(n), "--tier", tier], build="rel", timeout=3000) for s in range(n)]
    if tier == "thorough":
        # a second seed for the seeded-random size sequences
        jobs += [Job(f"recycle2:{s}", [exe, "run", "--seed", str(seed + 1), "--shard", str(s), "--nshards", str(n), "--tier", tier], build="rel", timeout=3000) for s in range(n)]
    rule = ("recycling patterns = consumption {split, split_to, advance, truncate} x freeze x main-buffer round trip through Bytes {none, try_into_mut, From} x unsplit x retention window 0..3 x initial capacity {0,64,1Ki,4Ki,64Ki} x message-size supports (periodic or seeded-random) x leftover {0,3,50}; "
            "each runs for 10*W rounds where the warm-up W is measured in bytes pushed (>= 4 buffer generations, >= 1000 rounds). Trend monitor over the ledger's counters (counting mode): (a) peak live bytes after warm-up <= warm-up peak + 2 requests + slack and no 3 strictly increasing windows, "
            "(b) with every part dropped before the refill: 0 byte-buffer allocations after warm-up (a single doubling step to >= 2x the largest buffer so far is attributed to amortised growth and bounded by (a)), (c) reserve(n) on an empty sole handle whose allocation is >= n never allocates (per-call events). "
            "quick = patterns with 10*W <= 2e5 rounds; thorough = whole grid. A cell = one pattern class with its outcome.")
    return run_and_finish(prop, tier, seed, t0, jobs, rule, key="patterns",
                          assumptions=["ledger counting mode counts exactly the align-1 allocations made inside the scope", "finite histories: a trend is judged over 9 windows of W rounds"])


# ----------------------------------------------------------------------------------- E2


def conc_native(buildname, seed, nshards, progs, reps, label, kind="native", env=None, extra=None):
    build(buildname, ["conc"])
    exe = binpath(buildname, "conc")
    jobs = []
    for s in range(nshards):
        # buffer-address parity per shard (ledger builds: ledger placement; ASan/TSan builds: the stateless shifting
        # allocator), so that the PROMOTABLE_ODD representation is raced natively too
        argv = [exe, "stress", "--seed", str(seed), "--shard", str(s), "--nshards", str(nshards), "--progs", str(progs), "--reps", str(reps), "--parity", ["mixed", "odd", "even"][s % 3], "--directed"] + (extra or [])
        jobs.append(Job(f"{label}:{s}", argv, env=env, kind=kind, build=buildname, crash="violation", timeout=2400))
    return jobs


def conc_miri(seed, njobs, progs, seeds, label, cfg=True, leaks=True, extra_flags=""):
    args = [["miri", "--seed", str(seed), "--shard", str(k), "--nshards", str(njobs), "--progs", str(progs)] for k in range(njobs)]
    flags = ("" if leaks else "-Zmiri-ignore-leaks ") + extra_flags
    js = miri_jobs("conc", args, label, seeds=seeds, cfg=cfg, extra_flags=flags.strip(), timeout=3000)
    for j in js:
        j.crash = "violation"
    return js


CONC_RULE = ("programs = a shared-storage setup (unpromoted Vec-backed Bytes cloned through one &Bytes, promoted, Vec-with-spare shared, frozen BytesMut, owner whose Drop writes its buffer, BytesMut halves, frozen head + BytesMut tail; with or without a handle lent by the main thread) "
             "x 2-3 threads x 1-4 ops from {clone via &Bytes, clone own, read, slice, drop, try_into_mut, into Vec, into BytesMut, truncate, advance, reserve, try_reclaim, freeze, BytesMut into Vec}; every thread checks bytes and addresses, exclusive owners overwrite everything they own and keep it until join; "
             "post-join trace check: at most one zero-copy exclusive owner, exclusive regions pairwise disjoint, ledger balance 0 and no ledger violation. The crate's H1 hook logs (thread, point) with Relaxed atomics and injects seeded spins/yields between the crate's atomic steps; after the randomly delayed repetitions every program is also run once per (thread, hook event) placement with that thread held at that event until all other threads have finished (all single-preemption schedules at the hooked atomic steps). "
             "A cell = a distinct program, or a distinct (program, ordered hook-event sequence) interleaving signature.")

TSAN_ENV = {"TSAN_OPTIONS": "halt_on_error=0:report_signal_unsafe=0:history_size=4"}


@plan("C05")
def run_c05(prop, tier, seed, t0):
    quick = tier != "thorough"
    n = vlib.JOBS
    progs, reps = (40, 150) if quick else (400, 1500)
    jobs = conc_native("rel", seed, n, progs, reps, "stress-rel")
    jobs += conc_native("dbg", seed + 1, n, progs // 2, reps, "stress-dbg")
    # the same programs on real threads under ASan (+LSan): a read of storage freed by another thread, a second
    # free or a block never freed is trapped exactly, not only when the ledger's poison happens to be read
    jobs += conc_native("asan-rel", seed + 2, n // 2, progs // 2, 40 if quick else 400, "asan-rel", kind="asan", env=ASAN_ENV)
    jobs += conc_miri(seed, 4 if quick else 12, 14 if quick else 40, "0..12" if quick else "0..64", "miri")
    agg = Agg(prop)
    for j in run_jobs(jobs):
        agg.absorb(j)
    extra = {"interleaving_signatures": agg.counters.get("distinct_signatures", 0), "executions_with_lost_promotion_race": agg.counters.get("cas_lost_executions", 0),
             "zero_copy_exclusive_winners": agg.counters.get("zero_copy_winners", 0)}
    if agg.counters.get("cas_lost_executions", 0) == 0:
        agg.inconclusive.append("the lost-promotion-race path was never observed in this run")
    run_probes(prop, agg)
    rule = CONC_RULE + " C05 runs them natively on the ledger allocator (release and debug), natively under ASan+LSan (ledger off: use-after-free, double free and leaks trapped by the sanitizer) and under Miri with many schedule seeds."
    return finish(prop, tier, seed, agg, t0, "exploration", rule, extra=extra, min_eval_key="executions",
                  assumptions=["sampled schedules only (OS scheduler + injected delays natively, Miri's randomised scheduler with weak-memory emulation per seed)", "thread spawn/barrier/join are the only synchronisation added by the harness"])


@plan("C06")
def run_c06(prop, tier, seed, t0):
    quick = tier != "thorough"
    n = vlib.JOBS
    jobs = conc_miri(seed, 4 if quick else 12, 14 if quick else 40, "0..16" if quick else "0..96", "miri-hook", leaks=False)
    jobs += conc_miri(seed + 5, 2 if quick else 8, 12 if quick else 40, "0..12" if quick else "0..64", "miri-nohook", cfg=False, leaks=False)
    jobs += conc_miri(seed + 9, 2 if quick else 6, 12 if quick else 40, "0..8" if quick else "0..48", "miri-preempt", leaks=False, extra_flags="-Zmiri-preemption-rate=0.1 -Zmiri-compare-exchange-weak-failure-rate=0.3")
    progs, reps = (40, 120) if quick else (400, 1200)
    jobs += conc_native("tsan", seed, n, progs, reps, "tsan", kind="tsan", env=TSAN_ENV)
    jobs += conc_native("tsan-nohook", seed + 3, n // 2, progs, reps, "tsan-nohook", kind="tsan", env=TSAN_ENV)
    agg = Agg(prop)
    for j in run_jobs(jobs):
        agg.absorb(j)
    rule = (CONC_RULE + " For C06 the deciding oracle is the happens-before race detector of Miri (vector clocks over every byte incl. deallocation, weak-memory emulation, many schedule seeds, with the hook and with the hook compiled out) and of ThreadSanitizer (-Zbuild-std, real threads with hook delays): any data-race report on buffer memory or bookkeeping is a violation. "
            "Both derive happens-before from the orderings written in the source, so a weakened ordering is reported whenever a racy-shaped execution (a reader dropped, another thread freed or took exclusive ownership) is produced.")
    extra = {"interleaving_signatures": agg.counters.get("distinct_signatures", 0), "tsan_reports": agg.counters.get("tsan_reports", 0),
             "racy_shape_executions_lower_bound": agg.counters.get("zero_copy_winners", 0) + agg.counters.get("point5_hits", 0) + agg.counters.get("point15_hits", 0)}
    return finish(prop, tier, seed, agg, t0, "exploration", rule, extra=extra, min_eval_key="executions",
                  assumptions=["Miri's and TSan's happens-before models; Miri does not emulate every hardware reordering, TSan does not model fences (the crate uses an Acquire load instead)", "sampled schedules only"])


# ----------------------------------------------------------------------------------- C16


@plan("C16")
def run_c16(prop, tier, seed, t0):
    quick = tier != "thorough"
    cfgs = ["dbg", "rel", "dbg-nostd", "rel-nostd", "dbg-xp", "rel-xp"]
    count = 120 if quick else 4000
    nsh = 1 if quick else 4
    jobs = []
    streams = {"walk": [], "walko": ["--ooc"], "walkm": ["--profile", "mut"], "walkom": ["--ooc", "--profile", "mut"]}
    for c in cfgs:
        build(c, ["seqdrive"])
        exe = binpath(c, "seqdrive")
        for par in ("even", "odd"):
            for sname, extra in streams.items():
                for s in range(nsh):
                    argv = [exe, "walk", "--seed", str(seed), "--shard", str(s), "--nshards", str(nsh), "--count", str(count), "--digest", "--parity", par] + extra
                    jobs.append(Job(f"{c}/{par}/{sname}:{s}", argv, build=c, timeout=2400))
    # getter table digests: native configs with std, both parities
    gsh = 4
    for c in ["dbg", "rel", "dbg-xp", "rel-xp"]:
        build(c, ["bufconf"])
        exe = binpath(c, "bufconf")
        for par in ("even", "odd"):
            for s in range(gsh):
                argv = [exe, "getters", "--shard", str(s), "--nshards", str(gsh), "--digest", "--parity", par]
                jobs.append(Job(f"{c}/{par}/get:{s}", argv, build=c, timeout=2400))
    # reader / writer conformance engines: per-case outcome digests (which calls panic, how far the cursors
    # moved) in debug vs release, both parities
    rcount = "15000" if quick else "400000"
    for c in ["dbg", "rel", "dbg-xp", "rel-xp"]:
        exe = binpath(c, "bufconf")
        for par in ("even", "odd"):
            jobs.append(Job(f"{c}/{par}/rd:0", [exe, "readers", "--seed", str(seed), "--count", rcount, "--digest", "--parity", par], build=c, timeout=2400))
            jobs.append(Job(f"{c}/{par}/wr:0", [exe, "writers", "--seed", str(seed), "--count", rcount, "--digest", "--parity", par], build=c, timeout=2400))
    # exhaustive fragmentation enumeration (every cut set of short sequences x 7 wrappers x every pair of ops incl.
    # over-long requests): which calls panic must not depend on the profile
    fl = "4" if quick else "6"
    for c in ["dbg", "rel", "dbg-xp", "rel-xp"]:
        exe = binpath(c, "bufconf")
        for s in range(4):
            jobs.append(Job(f"{c}/-/frag:{s}", [exe, "frag", "--maxlen", fl, "--shard", str(s), "--nshards", "4", "--digest", "--parity", ["even", "odd"][s % 2]], build=c, timeout=2400))
    # io::Cursor sweep (positions up to u64::MAX, counts up to usize::MAX): overflow checks on / off natively,
    # 64- vs 32-bit under Miri. Counts are expressed relative to usize::MAX, so outcomes must agree.
    for c in ["dbg", "rel", "dbg-xp", "rel-xp"]:
        exe = binpath(c, "bufconf")
        jobs.append(Job(f"{c}/-/curs:0", [exe, "cursors", "--digest"], build=c, timeout=2400))
    cpicks = [(seed * 29 + k * 11) % 64 for k in range(2 if quick else 8)]
    for tname, target in (("miri-host", None), ("miri-i686", "i686-unknown-linux-gnu")):
        jobs += buf_miri("cursors", [["--shard", str(k), "--nshards", "64", "--digest"] for k in cpicks], tname + "/-/curs", seed, target=target, timeout=3000)
    # pointer width and endianness as configuration axes: slices of the same table under Miri
    tot = 600
    picks = [(seed * 41 + k * 97) % tot for k in range(2 if quick else 8)]
    exe = binpath("dbg", "bufconf")
    for k in picks:
        jobs.append(Job(f"dbg/slice/get:{k}", [exe, "getters", "--shard", str(k), "--nshards", str(tot), "--digest"], build="dbg", timeout=1200))
    for tname, target in (("miri-host", None), ("miri-i686", "i686-unknown-linux-gnu"), ("miri-s390x", "s390x-unknown-linux-gnu")):
        js = buf_miri("getters", [["--shard", str(k), "--nshards", str(tot), "--digest"] for k in picks], tname + "/-/get", seed, target=target, timeout=3000)
        jobs += js
    agg = Agg(prop)
    done = run_jobs(jobs)
    table = {}  # (stream, case) -> {config: hash}
    steps = 0
    for j in done:
        agg.absorb(j)
        cfgname = j.label.split(":")[0].rsplit("/", 1)[0]
        for line in j.out.splitlines():
            if line.startswith("DIGEST "):
                parts = line.split()
                if len(parts) == 4:
                    table.setdefault((parts[1], parts[2]), {})[cfgname] = parts[3]
                    steps += 1
    compared = 0
    pairs = 0
    for key, per in sorted(table.items()):
        items = dict(per)
        if "_ne" in key[1]:
            # native-endian getters legitimately differ between little- and big-endian targets
            items = {c: h for c, h in items.items() if "s390x" not in c}
        if len(items) < 2:
            continue
        compared += 1
        pairs += len(items) - 1
        hs = set(items.values())
        agg.cells.add(f"dg|{key[0]}|{len(items)}cfg|{'same' if len(hs) == 1 else 'diff'}|{hash(key[1]) % 64}")
        if len(hs) != 1:
            groups = {}
            for c, h in items.items():
                groups.setdefault(h, []).append(c)
            detail = "; ".join(f"{h}: {','.join(sorted(cs))}" for h, cs in groups.items())
            fake = Job(f"digest:{key[0]}:{key[1]}", ["python3", "check.py", "C16"], build=None)
            agg.viols.append((prop, f"digest-diff:{key[0]}", f"{key[0]}:{key[1]}", f"outcome digests of {key[0]} case {key[1]} differ between configurations: {detail}", fake))
    agg.counters["digest_keys_compared"] = compared
    agg.counters["digest_pairs"] = pairs
    agg.counters["digests_collected"] = steps
    agg.counters["configurations"] = len({c for per in table.values() for c in per})
    if compared:
        agg.samples.insert(0, f"{compared} (stream, case) keys compared across up to {agg.counters['configurations']} configurations, e.g. " + "; ".join(f"{k[0]}:{k[1]} -> {sorted(set(v.values()))[0]} in {len(v)} configs" for k, v in list(sorted(table.items()))[:3]))
    rule = ("the same seeded histories (seqdrive walks: general, with out-of-contract calls, BytesMut-centred, both) are executed in {debug, release} x {default, no-default-features, extra-platforms} x {even, odd} buffer-address parity and a per-history digest of all observable results "
            "(contents, lengths, capacities, is_unique/try_reclaim/getter return values, which calls panicked; never addresses or messages) is compared for equality; likewise per-case outcome digests of the reader and writer conformance engines, of the exhaustive fragmentation enumeration (every pair of cursor ops incl. over-long requests on every cut set of short sequences under 7 wrappers), of the io::Cursor position/count sweep (also Miri host vs i686) and per-row digests of the getter table across {dbg, rel} x {default, extra-platforms} x parity, and for seeded slices of it under Miri host / i686 (32-bit) / s390x (big-endian, _ne rows excluded). "
            "evaluations = (stream, case) keys compared; a cell = stream x number of configurations x agreement x bucket.")
    return finish(prop, tier, seed, agg, t0, "exploration", rule, min_eval_key="digest_keys_compared",
                  assumptions=["the generators make the same choices in every configuration (choices depend on model state, lengths and capacities only); a divergence in choices shows up as a digest difference and is investigated as such",
                               "abort-class arguments are excluded (abort vs panic depends on the allocator)"])
