"""Per-property check plans (which engine runs, on which builds, with which budgets)."""
import os
import time

import vlib
from vlib import Agg, Job, ASAN_ENV, build, binpath, finish, miri_jobs, run_jobs, seq_jobs

PLANS = {}


def plan(*ids):
    def deco(f):
        for i in ids:
            PLANS[i] = f
        return f

    return deco


def setup():
    """Build every configuration once (checks rebuild incrementally afterwards)."""
    t0 = time.time()
    for name in ["dbg", "rel", "asan-rel", "relsys", "dbg-serde", "dbg-nostd", "rel-nostd", "dbg-xp", "rel-xp", "tsan", "tsan-nohook"]:
        try:
            build(name)
        except SystemExit:
            print(f"setup: build {name} failed")
            return 2
    # warm the Miri sysroots / build caches
    jobs = miri_jobs("seqdrive", [["walk", "--count", "1", "--ops-min", "3", "--ops-max", "3"]], "miri-warm", seeds="0..1")
    run_jobs(jobs)
    print(f"setup done in {time.time() - t0:.0f}s")
    return 0


# ----------------------------------------------------------------------------------- E1

E1 = {
    # prop: (ooc, profile, asan, crash policy, level text)
    "C01": dict(ooc=False, profile="general", asan=False, crash="inconclusive"),
    "C02": dict(ooc=True, profile="general", asan=True, crash="violation"),
    "C03": dict(ooc=False, profile="general", asan=True, crash="inconclusive"),
    "C04": dict(ooc=False, profile="mut", asan=False, crash="inconclusive"),
    "C07": dict(ooc=False, profile="general", asan=False, crash="inconclusive"),
    "C08": dict(ooc=False, profile="general", asan=False, crash="inconclusive"),
    "C13": dict(ooc=True, profile="general", asan=True, crash="violation"),
}

E1_RULE = {
    "C01": "cases = op histories (bounded-exhaustive depth<=D from 13 start states with every drop order of <=3 survivors, plus seeded random walks of 30-150 ops); after every op every live handle is compared with its Vec<u8> model. A cell = (handle type | backing representation incl. refcount class | op | argument class | outcome); cells of pure drop ops are not counted.",
    "C02": "same histories with out-of-contract arguments mixed in (1/4 of ops), run on the ledger allocator (red zones, poison+quarantine, layout-exact free, address-range check of every handle after every op; even/odd/mixed address parity), under ASan, Miri and (thorough) valgrind. Cells as in C01 plus OOC|repr|variant|outcome.",
    "C03": "same histories; at the end of each history survivors are dropped (every order for <=3 survivors in the exhaustive part) and the ledger balance of blocks allocated during the history must be 0; refcount conservation (stored count == live handles per control block, via H2) and owner as_ref/drop counters checked after every op; LSan and Miri leak checks on the same workload.",
    "C04": "BytesMut-centred histories; after every op all BytesMut regions [ptr,ptr+cap) are checked pairwise disjoint, disjoint from every live Bytes, and contained in one live ledger block; reserve/try_reclaim postconditions with boundary arguments (0, spare+-1, alloc-len(+1), alloc, 2*alloc+1); periodic write probes fill spare capacity and re-compare every other handle. Cells as in C01.",
    "C07": "same histories; each zero-copy op asserts result address == source address + logical offset (also for empty split parts) and that the ledger saw no align-1 allocation during the call. Cells as in C01.",
    "C08": "same histories; is_unique() of every live Bytes is evaluated after every op against a three-valued oracle built from the pool and the ledger (must-true / must-false / unspecified); try_into_mut is compared with is_unique and the address; try_reclaim/reserve on an empty sole handle must reclaim. A cell = uniq|repr|expectation|answer, plus the op cells.",
    "C13": "same histories with 1/4 of the ops replaced by an out-of-contract call (32 variants: len+1+k, cap+1+k, usize::MAX-k, isize::MAX+1+k, inverted / overflowing ranges, foreign and straddling slice_ref, oversized reserve/resize/put_bytes); each must panic or be the documented no-op, and a (ptr,len,cap,content-hash) snapshot of every handle must be unchanged afterwards; the history then continues under all other monitors and ends with the leak balance. Cells = OOC|repr|variant|outcome plus op cells.",
}


def nontrivial_cell(c):
    return "|drop|" not in c and not c.startswith("ctor|")


def e1_jobs(prop, tier, seed):
    c = E1[prop]
    quick = tier != "thorough"
    base = (["--ooc"] if c["ooc"] else []) + (["--profile", "mut"] if c["profile"] == "mut" else [])
    crash = c["crash"]
    jobs = []
    n = vlib.JOBS
    # bounded-exhaustive part (release + ledger, mixed parity)
    if quick:
        jobs += seq_jobs("rel", "exh", seed, n, ["--depth", "2", "--secs", "150"] + base, "exh-rel", crash=crash, timeout=600)
    else:
        jobs += seq_jobs("rel", "exh", seed, 4 * n, ["--depth", "3", "--secs", "500"] + base, "exh-rel", crash=crash, timeout=1200)
        jobs += seq_jobs("dbg", "exh", seed, n, ["--depth", "2", "--secs", "500"] + base, "exh-dbg", crash=crash, timeout=1200)
    # random walks on the ledger builds; the three parity modes are spread over the shards
    wr, wd = (500, 150) if quick else (12000, 4000)
    for bname, cnt in (("rel", wr), ("dbg", wd)):
        js = seq_jobs(bname, "walk", seed, n, ["--count", str(cnt)] + base, "walk-" + bname, crash=crash, timeout=1500)
        for k, j in enumerate(js):
            j.argv += ["--parity", ["mixed", "odd", "even", "mixed"][k % 4]]
        jobs += js
    # ASan (+LSan) on the same seeds
    if c["asan"]:
        cnt = 300 if quick else 8000
        jobs += seq_jobs("asan-rel", "walk", seed, n, ["--count", str(cnt)] + base, "asan-rel", kind="asan", crash=crash, env=ASAN_ENV, timeout=1500)
        if not quick:
            build("asan-dbg", ["seqdrive"])
            jobs += seq_jobs("asan-dbg", "walk", seed + 1000, n, ["--count", "3000"] + base, "asan-dbg", kind="asan", crash=crash, env=ASAN_ENV, timeout=1500)
    # Miri shards (exact bounds / provenance / uninitialised reads / leaks); odd addresses occur naturally
    nm, cnt = (6, 3) if quick else (32, 8)
    args = []
    for k in range(nm):
        args.append(["walk", "--seed", str(seed * 7919 + k), "--shard", str(k), "--nshards", str(nm), "--count", str(cnt), "--ops-min", "25", "--ops-max", "45"] + base)
    mj = miri_jobs("seqdrive", args, "miri", seeds=None, timeout=1500)
    for k, j in enumerate(mj):
        j.env["MIRIFLAGS"] = f"-Zmiri-seed={seed * 31 + k}"
        j.crash = crash
    jobs += mj
    # valgrind memcheck on the plain release binary (thorough, C02 only)
    if prop == "C02" and not quick:
        build("relsys", ["seqdrive"])
        exe = binpath("relsys", "seqdrive")
        for k in range(8):
            argv = ["valgrind", "--error-exitcode=9", "--quiet", "--leak-check=no", exe, "walk", "--seed", str(seed), "--shard", str(k), "--nshards", "8", "--count", "40", "--ooc"]
            jobs.append(Job(f"valgrind:{k}", argv, kind="valgrind", build="relsys", crash=crash, timeout=1500))
    return jobs


@plan("C01", "C02", "C03", "C04", "C07", "C08", "C13")
def run_e1(prop, tier, seed, t0):
    jobs = e1_jobs(prop, tier, seed)
    agg = Agg(prop)
    for j in run_jobs(jobs):
        agg.absorb(j)
    exh_complete = bool(agg.counters.get("exh_complete", 0)) and agg.done == agg.jobs
    extra = {
        "exhaustive_part": {"depth": agg.counters.get("exh_depth", 0), "complete": exh_complete},
        "explanation": "held on the executions listed here; nothing is claimed about histories that were not run",
    }
    assumptions = [
        "the ledger allocator, ASan, Miri and valgrind report what they are documented to report",
        "H2 introspection (__verif_repr) reads the fields it names; it is used only for coverage, refcount conservation and classifying empty handles",
        "single-threaded histories: every point between two calls is quiescent",
    ]
    return finish(prop, tier, seed, agg, t0, "exploration", E1_RULE[prop], nontrivial_filter=nontrivial_cell, extra=extra, assumptions=assumptions)


# ----------------------------------------------------------------------------------- E4


def tbl_jobs(buildname, mode, seed, nshards, extra, label, parity=None):
    build(buildname, ["cmpfmt"])
    exe = binpath(buildname, "cmpfmt")
    jobs = []
    for s in range(nshards):
        argv = [exe, mode, "--seed", str(seed), "--shard", str(s), "--nshards", str(nshards)] + extra
        if parity:
            argv += ["--parity", parity[s % len(parity)]]
        jobs.append(Job(f"{label}:{s}", argv, build=buildname, timeout=1200))
    return jobs


@plan("C14")
def run_c14(prop, tier, seed, t0):
    quick = tier != "thorough"
    extra = ["--random", "3000" if quick else "200000"] + ([] if quick else ["--all-reps"])
    jobs = tbl_jobs("dbg", "cmp", seed, 8 if quick else 16, extra, "cmp-dbg", parity=["odd", "even"])
    jobs += tbl_jobs("rel", "cmp", seed + 1, 4 if quick else 16, extra, "cmp-rel", parity=["even", "odd"])
    agg = Agg(prop)
    for j in run_jobs(jobs):
        agg.absorb(j)
    rule = ("every comparison impl instantiation (Bytes/BytesMut x {Self,[u8],&[u8],str,&str,Vec<u8>,&Vec<u8>,String,&String,&Self, the other crate type}, both operand orders where the impl exists) "
            "is invoked through the operators ==,!=,<,<=,>,>= and partial_cmp/cmp on all 85x85 pairs of strings of length<=3 over {00,'a','b',7f} (exhaustive) plus seeded random longer/prefix/non-UTF-8 pairs, "
            "crate-side operands in 6 Bytes / 4 BytesMut representations, odd and even allocator parity; Hash and Borrow<[u8]> compared with the slice. "
            "A cell = (impl | eq/ord | relation class eq/lt/lt-prefix/gt/gt-prefix).")
    return finish(prop, tier, seed, agg, t0, "exploration", rule, extra={"impl_pairs": 34}, exhaustive=True, min_eval_key="comparisons",
                  assumptions=["<[u8]>::cmp / == / DefaultHasher on the slices are the reference semantics"])


@plan("C15")
def run_c15(prop, tier, seed, t0):
    quick = tier != "thorough"
    jobs = tbl_jobs("dbg-serde", "fmt", seed, 8, ["--random", "2000" if quick else "100000"], "fmt", parity=["odd", "even"])
    jobs += tbl_jobs("dbg-serde", "serde", seed, 8, ["--random", "200" if quick else "5000"], "serde", parity=["even", "odd"])
    agg = Agg(prop)
    for j in run_jobs(jobs):
        agg.absorb(j)
    agg.counters["evaluations_total"] = agg.counters.get("formatted", 0) + agg.counters.get("token_streams", 0)
    rule = ("Debug output of every byte string in the universe (empty, all 256 single bytes x 6 representations, all 65536 pairs, seeded random longer strings rich in escapes) is parsed back by an independent parser of the Rust byte-string-literal grammar and must decode to the contents; {:x}/{:X} parsed back as two hex digits per byte; "
            "with feature serde every string is serialized (must emit Bytes(contents)) and deserialized into Bytes and BytesMut through the token streams Bytes, BorrowedBytes, ByteBuf, Seq(len), Seq(no hint) and (valid UTF-8) Str, BorrowedStr, String, incl. lengths around and beyond 4096. "
            "A cell = escape class of a byte / adjacency class of a pair / serde entry point x length class.")
    return finish(prop, tier, seed, agg, t0, "exploration", rule, exhaustive=True, min_eval_key="evaluations_total",
                  assumptions=["the hand-written literal parser implements the Rust reference grammar for byte strings", "serde_test's token (de)serializer is a faithful serde data model"])
