#!/usr/bin/env python3
"""Entry point: check.py setup | check.py <Cxx> [--tier quick|thorough] [--replay PATH]  (see vlib.py)"""
import os
import sys
import time

sys.path.insert(0, os.path.dirname(os.path.abspath(__file__)))
import vlib
import plans


def main():
    if len(sys.argv) < 2:
        print(vlib.__doc__)
        return 2
    what = sys.argv[1]
    if what == "setup":
        return plans.setup()
    tier, seed, replay_path = vlib.tier_seed(sys.argv[2:])
    if replay_path:
        return vlib.replay(what, replay_path)
    if what not in plans.PLANS:
        print(f"unknown property {what}")
        return 2
    return plans.PLANS[what](what, tier, seed, time.time())


if __name__ == "__main__":
    sys.exit(main())
