#!/usr/bin/env python3
"""Apply a patch to /repo, run the given checks (quick tier), revert. Used to validate the monitors
against seeded breakage.   try_patch.py <patch.diff> [--suite] [--tier T] <Cxx>...
Prints one line per check: CAUGHT / MISSED / BROKEN."""
import subprocess, sys, os, re, time
REPO = os.environ.get("VERIF_REPO", "/repo")
VROOT = os.environ.get("VERIF_ROOT", "/verif")
args = sys.argv[1:]
patch = os.path.abspath(args[0]); args = args[1:]
suite = "--suite" in args
tier = "quick"
if "--tier" in args:
    tier = args[args.index("--tier") + 1]
props = [a for a in args if re.fullmatch(r"C\d\d", a)]
def sh(cmd, **kw):
    return subprocess.run(cmd, shell=True, text=True, capture_output=True, **kw)
if sh(f"git -C {REPO} diff --quiet").returncode != 0:
    print("repo dirty"); sys.exit(2)
r = sh(f"git -C {REPO} apply {patch}")
if r.returncode != 0:
    print("patch does not apply:", r.stderr); sys.exit(2)
try:
    if suite:
        t = sh(f"cd {REPO} && cargo test --workspace --no-fail-fast --offline 2>&1 | grep -E '^test result|error(\\[|:)' ")
        failed = sum(int(m) for m in re.findall(r"(\d+) failed", t.stdout))
        passed = sum(int(m) for m in re.findall(r"(\d+) passed", t.stdout))
        print(f"suite: passed={passed} failed={failed}" + (" (COMPILE ERROR?)" if passed == 0 else ""))
    for p in props:
        t0 = time.time()
        r = sh(f"cd {VROOT} && VERIF_TIER={tier} python3 check.py {p} --tier {tier}")
        v = [l for l in r.stdout.splitlines() if l.startswith("VIOLATION")]
        d = [l for l in r.stdout.splitlines() if l.startswith("VIOL-DETAIL")]
        status = "CAUGHT" if (r.returncode == 1 and v) else ("MISSED" if r.returncode == 0 else f"BROKEN(rc={r.returncode})")
        print(f"{p}: {status} in {time.time()-t0:.0f}s" + (f" :: {d[0][:300]}" if d else ""))
        if status.startswith("BROKEN"):
            print(r.stdout[-1500:]); print(r.stderr[-500:])
finally:
    sh(f"git -C {REPO} checkout -- . && git -C {REPO} clean -fdq src tests")
    print("reverted:", sh(f"git -C {REPO} status --short").stdout.strip() or "clean")
