#!/usr/bin/env python3
"""Confirm a seeded change produced by an independent agent, in the scratch worktree /tmp/mw/own:
 1. patch applies, crate builds, the pinned suite passes with it;
 2. the demonstration fails with it and passes without it.
Then store it as /verif/seeded/<prop>-<m>/ {patch.diff, demo.rs, meta.json}.
usage: confirm_seeded.py <Cxx> <m1|m2> [--demo-cmd "cargo ... {name}"] [--needs "text"]"""
import subprocess, sys, os, re, json, shutil
prop, m = sys.argv[1], sys.argv[2]
args = sys.argv[3:]
demo_cmd = "cargo test --offline --test {name}"
needs = ""
features = ""
if "--demo-cmd" in args: demo_cmd = args[args.index("--demo-cmd")+1]
if "--needs" in args: needs = args[args.index("--needs")+1]
src = f"/tmp/mw/{prop}/out"
outname = f"{prop}-{m}"
if "--src" in args: src = args[args.index("--src")+1]
if "--name" in args: outname = args[args.index("--name")+1]
W = os.environ.get("SEED_W", "/tmp/mw/own")
def sh(cmd, cwd=W, timeout=3000):
    return subprocess.run(cmd, shell=True, text=True, capture_output=True, cwd=cwd, timeout=timeout)
sh("git checkout -q -- . && git clean -fdq tests src")
patch = f"{src}/{m}.diff"; demo = f"{src}/{m}_demo.rs"
name = f"demo_{prop.lower()}_{m}"
if "--what" in args: res_what = args[args.index("--what")+1]
else: res_what = ""
res = {"property": prop, "mutant": m, "source": "independent sub-agent (given only the property text and a scratch worktree)"}
r = sh(f"git apply {patch}")
if r.returncode != 0:
    print("PATCH DOES NOT APPLY", r.stderr); sys.exit(1)
t = sh("cargo test --workspace --no-fail-fast --offline 2>&1 | grep -E '^test result|^error'")
failed = sum(int(x) for x in re.findall(r"(\d+) failed", t.stdout)); passed = sum(int(x) for x in re.findall(r"(\d+) passed", t.stdout))
res["suite_with_patch"] = {"passed": passed, "failed": failed}
print(f"suite with patch: passed={passed} failed={failed}")
shutil.copy(demo, f"{W}/tests/{name}.rs")
cmd = demo_cmd.format(name=name)
d1 = sh("set -o pipefail; " + cmd + " 2>&1 | tail -60")
d1 = subprocess.run(["bash", "-c", "set -o pipefail; " + cmd + " 2>&1 | tail -60"], text=True, capture_output=True, cwd=W)
ok1 = d1.returncode != 0
res["demo_cmd"] = cmd
res["demo_with_patch"] = "FAILS" if ok1 else "passes(!)"
print("demo with patch:", res["demo_with_patch"])
if not ok1: print(d1.stdout[-1500:])
sh("git checkout -q -- src")
d2 = subprocess.run(["bash", "-c", "set -o pipefail; " + cmd + " 2>&1 | tail -30"], text=True, capture_output=True, cwd=W)
ok2 = d2.returncode == 0
res["demo_without_patch"] = "passes" if ok2 else "FAILS(!)"
print("demo without patch:", res["demo_without_patch"])
if not ok2: print(d2.stdout[-1500:])
sh("git checkout -q -- . && git clean -fdq tests src")
res["confirmed"] = bool(failed == 0 and passed > 900 and ok1 and ok2)
res["needs_to_manifest"] = needs
res["what"] = res_what
out = f"/verif/seeded/{outname}"
os.makedirs(out, exist_ok=True)
shutil.copy(patch, f"{out}/patch.diff"); shutil.copy(demo, f"{out}/demo.rs")
json.dump(res, open(f"{out}/meta.json", "w"), indent=1)
print("confirmed" if res["confirmed"] else "NOT CONFIRMED", "->", out)
