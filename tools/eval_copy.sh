#!/bin/bash
# Evaluate seeded changes on an INDEPENDENT copy of /repo and /verif, so that /repo itself is never patched and
# checks running in /verif are not disturbed.
#   tools/eval_copy.sh <copy-dir> <log-file> <seeded-id>...        e.g.  tools/eval_copy.sh /tmp/ev /tmp/ev/r.log C01-r5m1 C02-r5m2
# The copy is created (git clone of both trees at their current HEAD, harness/probes path dependencies rewritten to
# the copied repo) if it does not exist yet, otherwise its /verif is moved to the current HEAD of /verif. For every id
# the change's own property is checked, plus the properties listed in seeded/<id>/also.txt.
set -e
C=$1; LOG=$2; shift 2
if [ ! -d "$C/repo" ]; then
  mkdir -p "$C"; git clone -q /repo "$C/repo"; git clone -q /verif "$C/verif"
else
  git -C "$C/repo" checkout -q -- .
  git -C "$C/verif" checkout -q -- . && git -C "$C/verif" fetch -q /verif main && git -C "$C/verif" checkout -q FETCH_HEAD
fi
sed -i "s#path = \"/repo\"#path = \"$C/repo\"#" "$C/verif/harness/Cargo.toml" "$C/verif/probes/Cargo.toml"
export VERIF_REPO=$C/repo VERIF_ROOT=$C/verif
cd "$C/verif"
for id in "$@"; do
  own=${id%%-*}; extra=""
  [ -f /verif/seeded/$id/also.txt ] && extra=$(cat /verif/seeded/$id/also.txt)
  echo "== $id -> $own $extra" >> "$LOG"
  python3 tools/try_patch.py /verif/seeded/$id/patch.diff $own $extra >> "$LOG" 2>&1
done
echo EVAL-DONE >> "$LOG"
