#!/usr/bin/env python3
"""Builds seeded/RESULTS.md from the evaluation logs (tools/try_patch.py output) and the meta.json files."""
import json, re, sys, os, glob
logs = sys.argv[1:]
res = {}  # name -> {prop: status}
cur = None
for lg in logs:
    for line in open(lg):
        m = re.match(r"== (\S+)", line)
        if m:
            cur = m.group(1); res.setdefault(cur, {}); continue
        m = re.match(r"(C\d\d): (CAUGHT|MISSED|BROKEN\S*) in (\d+)s(?: :: VIOL-DETAIL sig=(\S+))?", line)
        if m and cur:
            res[cur][m.group(1)] = (m.group(2), m.group(4) or "")
out = ["# Seeded changes: which checks catch them", "",
       "Each row is a change to tokio-rs/bytes that still compiles and passes the pinned suite (confirmed in a scratch worktree: `meta.json`).",
       "`Cxx-mN` = written by an independent sub-agent that saw only the property text; `own/*` = written from DESIGN.md §4 'M' lists.",
       "Checks were run with `tools/try_patch.py` (quick tier, VERIF_SEED=1) with the patch applied (to /repo in rounds 1-2, to an independent copy via `tools/eval_copy.sh` from round 3 on) and reverted afterwards. Each cell shows the LATEST measurement of that (change, check) pair; the per-round first measurements are in the `eval_round*a*` logs.", "",
       "| change | breaks | needs | check → result (signature) |", "|---|---|---|---|"]
for name in sorted(res):
    meta = {}
    mp = f"/verif/seeded/{name}/meta.json"
    if os.path.exists(mp):
        meta = json.load(open(mp))
    needs = meta.get("needs_to_manifest", "")
    what = meta.get("what", "")
    cells = "; ".join(f"{p} → **{st}**" + (f" (`{sig}`)" if sig else "") for p, (st, sig) in sorted(res[name].items()))
    out.append(f"| {name} | {meta.get('property', name[:3])} {what} | {needs} | {cells} |")
open("/verif/seeded/RESULTS.md", "w").write("\n".join(out) + "\n")
print("\n".join(out[-len(res):]))
