#!/bin/bash
# Measures which lines of /repo/src the engines execute (a sample of the quick workloads), using
# -Cinstrument-coverage on the nightly toolchain. Output: union over the five engine binaries.
# usage: tools/coverage.sh [outdir]   (scratch dir outside /verif; default /tmp/vcov)
set -e
OUT=${1:-/tmp/vcov}; mkdir -p $OUT; cd /verif/harness
RUSTFLAGS="--cfg tokio_rs_bytes_verif -Cinstrument-coverage" CARGO_TARGET_DIR=$OUT/target cargo +nightly build --offline --release --features ledger,serde 2>&1 | tail -1
B=$OUT/target/release; cd $OUT; rm -f *.profraw; export LLVM_PROFILE_FILE="$OUT/p-%p-%m.profraw"
$B/seqdrive walk --seed 1 --count 400 --ooc > /dev/null
$B/seqdrive walk --seed 2 --count 300 --profile mut --parity odd > /dev/null
$B/seqdrive walk --short --seed 3 --count 3000 --parity packed > /dev/null
$B/seqdrive exh --depth 2 --shard 3 --nshards 64 > /dev/null
$B/seqdrive exh --depth 2 --shard 5 --nshards 64 --ooc > /dev/null
for st in 8 10; do for op in 0 3; do $B/seqdrive single --start $st --op $op --arg 3 >/dev/null 2>&1 || true; done; done
$B/bufconf readers --count 20000 > /dev/null; $B/bufconf frag --shard 0 --nshards 64 > /dev/null
for k in 0 1 2 3; do $B/bufconf getters --shard $k --nshards 4 > /dev/null; done
$B/bufconf writers --count 20000 > /dev/null; $B/bufconf faults --count 2000 > /dev/null
$B/cmpfmt cmp --random 500 > /dev/null; $B/cmpfmt fmt --random 200 --nshards 8 > /dev/null
$B/cmpfmt serde --random 50 --nshards 8 >/dev/null; $B/cmpfmt serdelie > /dev/null
$B/conc stress --progs 80 --reps 40 > /dev/null; $B/recycle run --seed 1 --shard 0 --nshards 64 --tier quick > /dev/null
T=$(dirname $(rustup +nightly which rustc))/../lib/rustlib/x86_64-unknown-linux-gnu/bin
$T/llvm-profdata merge -sparse *.profraw -o all.profdata
for b in seqdrive bufconf cmpfmt conc recycle; do $T/llvm-cov show -instr-profile=all.profdata $B/$b /repo/src 2>/dev/null > show_$b.txt; done
python3 - "$OUT" <<'PY'
import re,collections,sys
out=sys.argv[1]
cov=collections.defaultdict(dict); text={}
for b in ['seqdrive','bufconf','cmpfmt','conc','recycle']:
    cur=None
    for line in open(f'{out}/show_{b}.txt'):
        m=re.match(r'^(/repo/src/\S+):$',line)
        if m: cur=m.group(1); continue
        m=re.match(r'^\s*(\d+)\|\s*([0-9.kME]*)\|(.*)$',line)
        if m and cur:
            ln=int(m.group(1)); c=m.group(2); text[(cur,ln)]=m.group(3)
            if c=='': continue
            mult={'k':1e3,'M':1e6,'E':1e18}
            v=float(c[:-1])*mult[c[-1]] if c[-1] in mult else float(c)
            cov[cur][ln]=max(cov[cur].get(ln,0),v)
tot=miss=0
for f in sorted(cov):
    z=[l for l,v in cov[f].items() if v==0]; tot+=len(cov[f]); miss+=len(z)
    print(f"{f.replace('/repo/src/','')}: {len(cov[f])-len(z)}/{len(cov[f])}")
print(f"TOTAL lines executed {tot-miss} of {tot} ({100.0*(tot-miss)/tot:.1f}%)")
print("never executed:")
for f in sorted(cov):
    for l in sorted(cov[f]):
        if cov[f][l]==0:
            t=text[(f,l)].strip()
            if t and not t.startswith('//') and t not in ('}','{'):
                print(f"  {f.replace('/repo/src/','')}:{l}: {t[:100]}")
PY
